// print_test.go: AST -> Arc source. Parentheses are printed only where the precedence and
// associativity rules of the specification (arc/docs/spec.md "Expression Grammar and
// Precedence", reference/operators.mdx "Precedence Table") require them, so the compiler's
// parser is exercised on exactly those rules:
//
//	1 ^ (right)   2 unary - / not (right)   3 * / % (left)   4 + - (left)
//	5 < > <= >= == != (left)   6 and or (left)
//
// Constructs where the text would be read differently by a different (plausible) grammar are
// reported as *static hazard tags* of the program; a tag listed in the avoid set is instead
// printed with explicit parentheses (and counted).
package verif_c19_test

import (
	"math"
	"strconv"
	"strings"
)

// spec precedence levels, higher binds tighter
const noHint Ty = -1

const (
	pLogic = 1
	pCmp   = 2
	pAdd   = 3
	pMul   = 4
	pUnary = 5
	pPow   = 6
	pPrim  = 7
)

func opLevel(op string) int {
	switch op {
	case "and", "or":
		return pLogic
	case "==", "!=", "<", ">", "<=", ">=":
		return pCmp
	case "+", "-":
		return pAdd
	case "*", "/", "%":
		return pMul
	case "^":
		return pPow
	}
	return pPrim
}

type printer struct {
	sc     *Script
	avoid  map[string]bool
	static map[string]bool // static hazard tags present in the printed text
	added  map[string]int  // parentheses / rewrites added because a tag is avoided
}

func newPrinter(avoid map[string]bool) *printer {
	return &printer{avoid: avoid, static: map[string]bool{}, added: map[string]int{}}
}

// hazard records a static hazard; returns true if it must be avoided (caller adds parens).
func (p *printer) hazard(tag string) bool {
	if p.avoid[tag] {
		p.added[tag]++
		return true
	}
	p.static[tag] = true
	return false
}

func fmtFloat(t Ty, bits uint64) string {
	var f float64
	if t == F32 {
		f = float64(math.Float32frombits(uint32(bits)))
	} else {
		f = math.Float64frombits(bits)
	}
	s := strconv.FormatFloat(f, 'f', -1, 64) // exact for the f32 value as well
	if !strings.Contains(s, ".") {
		s += ".0"
	}
	return s
}

// litText returns the bare text of a literal (may start with '-').
func litText(e *Expr) string {
	if e.T.isFloat() {
		if e.IL {
			var f float64
			if e.T == F32 {
				f = float64(math.Float32frombits(uint32(e.V)))
			} else {
				f = math.Float64frombits(e.V)
			}
			return strconv.FormatInt(int64(f), 10)
		}
		return fmtFloat(e.T, e.V)
	}
	if e.T.isSigned() {
		return strconv.FormatInt(int64(e.V), 10)
	}
	return strconv.FormatUint(e.V, 10)
}

// anchored: the expression has a concrete type of its own (does not depend on literal
// inference from the context).
func anchored(e *Expr) bool {
	switch e.K {
	case KVar, KCast, KNot, KCall:
		return true
	case KNeg:
		return anchored(e.A)
	case KBin:
		if isCmp(e.Op) || isLogic(e.Op) {
			return true
		}
		return anchored(e.A) || anchored(e.B)
	}
	return false
}

func hasIntSpelledFloat(e *Expr) bool {
	if e == nil {
		return false
	}
	if e.K == KLit && e.IL {
		return true
	}
	for _, a := range e.Args {
		if hasIntSpelledFloat(a) {
			return true
		}
	}
	return hasIntSpelledFloat(e.A) || hasIntSpelledFloat(e.B)
}

// expr prints e. min is the minimum precedence level that may appear without parentheses.
// bare: a literal here may be printed without a cast because the context fixes its type.
// noDef: default literal typing (i64/f64) must not be relied upon (we are under a cast).
// Returns the text and whether the printed text is anchored.
// hint: the type the compiler's literal "hint" carries to this node when it compiles the
// expression left to right (noHint if none); a bare literal whose own type differs from it
// is the static hazard "hint-leak-literal".
func (p *printer) expr(e *Expr, min int, bare, noDef bool, hint Ty) (string, bool) {
	switch e.K {
	case KLit:
		txt := litText(e)
		defaultOK := !noDef && !e.IL && (e.T == I64 || e.T == F64)
		if e.IL && !bare {
			// integer-literal spelling of a float is only used where the context types it
			txt = fmtFloat(e.T, e.V)
		}
		if (bare || defaultOK) && hint != noHint && hint != e.T {
			if p.hazard("hint-leak-literal") {
				bare, defaultOK = false, false
			}
		}
		if bare || defaultOK {
			if strings.HasPrefix(txt, "-") && min > pUnary {
				return "(" + txt + ")", false
			}
			return txt, false
		}
		return e.T.String() + "(" + txt + ")", true
	case KVar:
		return e.N, true
	case KCast:
		s, _ := p.expr(e.A, 0, false, true, e.T)
		return e.T.String() + "(" + s + ")", true
	case KCall:
		h := &p.sc.Helpers[e.F]
		var args []string
		for i, a := range e.Args {
			// the parameter fixes the type of a literal argument, as the target of an assignment does
			x, _ := p.expr(a, 0, true, false, h.Params[i].T)
			args = append(args, x)
		}
		return h.Name + "(" + strings.Join(args, ", ") + ")", true
	case KNeg, KNot:
		opTxt := "-"
		if e.K == KNot {
			opTxt = "not "
		}
		var s string
		var anc bool
		if e.A.K == KBin && e.A.Op == "^" {
			// spec: ^ binds tighter than unary, so -(a ^ b) needs no parentheses
			if p.hazard("prec-unary-pow") {
				s, anc = p.expr(e.A, 0, bare && e.K == KNeg, noDef, hint)
				s = "(" + s + ")"
			} else {
				s, anc = p.expr(e.A, pPow, bare && e.K == KNeg, noDef, hint)
			}
		} else {
			s, anc = p.expr(e.A, pUnary, bare && e.K == KNeg, noDef, hint)
		}
		if e.K == KNot {
			anc = true
		}
		out := opTxt + s
		if min > pUnary {
			out = "(" + out + ")"
		}
		return out, anc
	case KBin:
		lvl := opLevel(e.Op)
		var as, bs string
		var aAnc, bAnc bool
		switch {
		case e.Op == "^":
			// right-associative: left operand must be primary, right operand may be a power
			// or a prefix unary expression (a prefix operator cannot bind any other way).
			aBare, aNoDef := bare || anchored(e.B), noDef
			if !anchored(e.A) {
				// the base is a literal (tree): its type only follows from the exponent / context
				if p.hazard("pow-literal-base") {
					aBare, aNoDef = false, true
				}
			}
			as, aAnc = p.expr(e.A, pPrim, aBare, aNoDef, hint)
			rmin := pPow
			if e.B.K == KNeg || e.B.K == KNot || (e.B.K == KLit) {
				rmin = 0
			}
			bs, bAnc = p.expr(e.B, rmin, bare || aAnc, noDef, e.A.T)
		case isLogic(e.Op):
			lmin := lvl
			if e.A.K == KBin && isLogic(e.A.Op) && e.A.Op != e.Op && e.Op == "and" {
				// `a or b and c`: same level, left-associative per spec => (a or b) and c
				if p.hazard("andor-mixed") {
					lmin = pPrim
				}
			}
			as, _ = p.expr(e.A, lmin, false, noDef, hint)
			bs, _ = p.expr(e.B, lvl+1, false, noDef, hint)
			aAnc, bAnc = true, true
		case isCmp(e.Op):
			lmin := lvl
			if e.A.K == KBin && isCmp(e.A.Op) {
				tag := "cmp-chain"
				switch {
				case isEq(e.A.Op) && !isEq(e.Op):
					tag = "cmp-eq-rel" // a == b < c
				case !isEq(e.A.Op) && isEq(e.Op):
					tag = "cmp-rel-eq" // a < b == c
				}
				if p.hazard(tag) {
					lmin = pPrim
				}
			}
			// operand type differs from the result type: literal context does not pass through
			as, aAnc = p.expr(e.A, lmin, anchored(e.B), noDef, hint)
			bs, bAnc = p.expr(e.B, lvl+1, aAnc, noDef, e.A.T)
			aAnc, bAnc = true, true
		default: // + - * / %
			as, aAnc = p.expr(e.A, lvl, bare || anchored(e.B), noDef, hint)
			bs, bAnc = p.expr(e.B, lvl+1, bare || aAnc, noDef, e.A.T)
		}
		out := as + " " + e.Op + " " + bs
		if min > lvl {
			out = "(" + out + ")"
		}
		return out, aAnc || bAnc
	}
	panic("printer: unknown expression kind " + e.K)
}

// cond prints a condition of an if / for statement.
func (p *printer) cond(e *Expr) string {
	if e.T != U8 {
		if p.hazard("cond-non-u8") {
			s, _ := p.expr(e, pCmp+1, false, false, noHint)
			return s + " != " + e.T.String() + "(0)"
		}
	}
	s, _ := p.expr(e, 0, false, false, noHint)
	return s
}

func (p *printer) block(sb *strings.Builder, body []Stmt, ind int) {
	pad := strings.Repeat("    ", ind)
	for i := range body {
		s := &body[i]
		switch s.K {
		case SDecl, SState:
			op := ":="
			if s.K == SState {
				op = "$="
			}
			if s.Ann {
				e, _ := p.expr(s.E, 0, true, false, s.T)
				sb.WriteString(pad + s.N + " " + s.T.String() + " " + op + " " + e + "\n")
			} else {
				noDef := false
				if !anchored(s.E) {
					// the variable's type follows only from the default typing of literals
					// (variables.mdx: `x := 42 // i64`, stateful-variables.mdx: `total $= 0.0 // f64`)
					if p.hazard("infer-decl-literal") {
						noDef = true
					}
				}
				e, _ := p.expr(s.E, 0, false, noDef, s.T)
				sb.WriteString(pad + s.N + " " + op + " " + e + "\n")
			}
		case SAssign:
			e, _ := p.expr(s.E, 0, true, false, s.T)
			sb.WriteString(pad + s.N + " " + s.Op + "= " + e + "\n")
		case SIf:
			sb.WriteString(pad + "if " + p.cond(s.E) + " {\n")
			p.block(sb, s.Body, ind+1)
			for j := range s.Elifs {
				sb.WriteString(pad + "} else if " + p.cond(s.Elifs[j].C) + " {\n")
				p.block(sb, s.Elifs[j].Body, ind+1)
			}
			if s.HasElse {
				sb.WriteString(pad + "} else {\n")
				p.block(sb, s.Else, ind+1)
			}
			sb.WriteString(pad + "}\n")
		case SForRange:
			var args []string
			for _, a := range s.Args {
				x, _ := p.expr(a, 0, false, a.T != I64, s.T)
				args = append(args, x)
			}
			sb.WriteString(pad + "for " + s.N + " := range(" + strings.Join(args, ", ") + ") {\n")
			p.block(sb, s.Body, ind+1)
			sb.WriteString(pad + "}\n")
		case SForCond:
			sb.WriteString(pad + "for " + p.cond(s.E) + " {\n")
			p.block(sb, s.Body, ind+1)
			sb.WriteString(pad + "}\n")
		case SForInf:
			sb.WriteString(pad + "for {\n")
			p.block(sb, s.Body, ind+1)
			sb.WriteString(pad + "}\n")
		case SBreak:
			sb.WriteString(pad + "break\n")
		case SContinue:
			sb.WriteString(pad + "continue\n")
		case SReturn:
			e, _ := p.expr(s.E, 0, true, false, noHint)
			sb.WriteString(pad + "return " + e + "\n")
		default:
			panic("printer: unknown statement kind " + s.K)
		}
	}
}

const funcName = "f"

func (p *printer) program(sc *Script) string {
	p.sc = sc
	var sb strings.Builder
	fn := func(name string, params []Param, ret Ty, body []Stmt) {
		sb.WriteString("func " + name + "(")
		for i, pa := range params {
			if i > 0 {
				sb.WriteString(", ")
			}
			sb.WriteString(pa.N + " " + pa.T.String())
			if pa.Def != nil {
				d, _ := p.expr(pa.Def, 0, true, false, pa.T)
				sb.WriteString(" = " + d)
			}
		}
		sb.WriteString(") " + ret.String() + " {\n")
		p.block(&sb, body, 1)
		sb.WriteString("}\n")
	}
	for i := range sc.Helpers {
		h := &sc.Helpers[i]
		fn(h.Name, h.Params, h.Ret, h.Body)
		sb.WriteString("\n")
	}
	fn(funcName, sc.Params, sc.Ret, sc.Body)
	return sb.String()
}
