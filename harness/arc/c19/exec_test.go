// exec_test.go: executor — print, compile with arc.CompileText, validate/instantiate with
// wazero wired like arc/go/compiler/compiler_test.go (bindDefaultModules) and
// arc/go/runtime_test.go, call the exported function, compare with M-ARC.
package verif_c19_test

import (
	"context"
	"fmt"
	"math"
	"os"
	"runtime/debug"
	"sort"
	"strings"
	"time"

	"github.com/synnaxlabs/arc"
	kit "github.com/synnaxlabs/arc/internal/verifkit"
	stlchannels "github.com/synnaxlabs/arc/stl/channels"
	stlerrors "github.com/synnaxlabs/arc/stl/errors"
	stlmath "github.com/synnaxlabs/arc/stl/math"
	"github.com/synnaxlabs/arc/stl/series"
	"github.com/synnaxlabs/arc/stl/stateful"
	stlstrings "github.com/synnaxlabs/arc/stl/strings"
	stltime "github.com/synnaxlabs/arc/stl/time"
	"github.com/tetratelabs/wazero"
)

const (
	compileTimeout = 30 * time.Second
	callTimeout    = 20 * time.Second
)

type compileResult struct {
	prog     arc.Program
	err      error
	panicked any
	stack    string
}

// compileGuarded runs arc.CompileText with panic capture and a generous time bound.
// timedOut => inconclusive (discard), never a violation.
func compileGuarded(src string) (res compileResult, timedOut bool) {
	ch := make(chan compileResult, 1)
	go func() {
		var r compileResult
		defer func() {
			if p := recover(); p != nil {
				r.panicked = p
				r.stack = string(debug.Stack())
			}
			ch <- r
		}()
		ctx, cancel := context.WithTimeout(context.Background(), compileTimeout)
		defer cancel()
		r.prog, r.err = arc.CompileText(ctx, arc.Text{Raw: src}, arc.NewRoot(nil))
	}()
	select {
	case r := <-ch:
		return r, false
	case <-time.After(compileTimeout + 5*time.Second):
		return compileResult{}, true
	}
}

// host is a wazero runtime with the STL host modules a compiled Arc module imports.
type host struct {
	rt       wazero.Runtime
	stateful *stateful.Host
}

func newHost(ctx context.Context) (*host, error) {
	// production (arc/go/runtime, core) uses the optimizing compiler engine; C19_ENGINE=interpreter
	// selects wazero's interpreter (used to tell compiler-engine problems from Arc problems)
	cfg := wazero.NewRuntimeConfigCompiler()
	if os.Getenv("C19_ENGINE") == "interpreter" {
		cfg = wazero.NewRuntimeConfigInterpreter()
	}
	rt := wazero.NewRuntimeWithConfig(ctx, cfg.WithCloseOnContextDone(true))
	stringsState := stlstrings.NewProgramState()
	seriesState := series.NewProgramState()
	channelState := stlchannels.NewProgramState(nil)
	h := &host{rt: rt}
	var err error
	if h.stateful, err = stateful.NewHost(ctx, rt, seriesState, stringsState); err != nil {
		return nil, err
	}
	if _, err = series.NewHost(ctx, rt, seriesState); err != nil {
		return nil, err
	}
	if _, err = stlstrings.NewHost(ctx, rt, stringsState, nil); err != nil {
		return nil, err
	}
	if _, err = stlmath.NewHost(ctx, rt); err != nil {
		return nil, err
	}
	if _, err = stlerrors.NewHost(ctx, rt, nil); err != nil {
		return nil, err
	}
	if _, err = stltime.NewHost(ctx, rt); err != nil {
		return nil, err
	}
	if _, err = stlchannels.NewHost(ctx, rt, channelState, stringsState); err != nil {
		return nil, err
	}
	return h, nil
}

func tagStr(tags map[string]bool) string {
	if len(tags) == 0 {
		return ""
	}
	var l []string
	for t := range tags {
		l = append(l, t)
	}
	sort.Strings(l)
	return "[" + strings.Join(l, ",") + "]"
}

func fmtArgs(sc *Script, args []uint64) string {
	var parts []string
	for i, p := range sc.Params {
		parts = append(parts, p.N+"="+valFromBits(p.T, args[i]).String())
	}
	return "(" + strings.Join(parts, ", ") + ")"
}

// toWasm encodes a canonical value as the uint64 wazero expects for the parameter type.
func toWasm(t Ty, bits uint64) uint64 {
	if t.wasm32() {
		return uint64(uint32(bits))
	}
	return bits
}

// zeroExtArg encodes an argument the way arc/go/stl/wasm/node.go valueAt does for series
// samples: the raw bytes of the sample, zero-extended.
func zeroExtArg(t Ty, bits uint64) uint64 {
	if t.isInt() && t.bits() < 64 {
		return bits & (uint64(1)<<t.bits() - 1)
	}
	return bits
}

// fromWasm decodes a result to the value an observer of the declared type sees (the runtime
// stores the low bytes of the result into a series of the declared type).
func fromWasm(t Ty, raw uint64) val {
	switch t {
	case F32:
		return val{T: t, F: float64(math.Float32frombits(uint32(raw)))}
	case F64:
		return val{T: t, F: math.Float64frombits(raw)}
	}
	return val{T: t, U: t.norm(raw)}
}

func sameValue(exp, got val) bool {
	if exp.T.isFloat() {
		if exp.F != exp.F && got.F != got.F {
			return true // NaN == NaN
		}
		return exp.bits() == got.bits()
	}
	return exp.U == got.U
}

func within1ulp(exp, got val) bool {
	if exp.F != exp.F || got.F != got.F {
		return exp.F != exp.F && got.F != got.F
	}
	if exp.T == F32 {
		a, b := float32(exp.F), float32(got.F)
		return math.Nextafter32(a, float32(math.Inf(1))) == b || math.Nextafter32(a, float32(math.Inf(-1))) == b || a == b
	}
	return math.Nextafter(exp.F, math.Inf(1)) == got.F || math.Nextafter(exp.F, math.Inf(-1)) == got.F || exp.F == got.F
}

func classifyProgram(sc *Script, rep *kit.Report) {
	var walkE func(e *Expr)
	walkE = func(e *Expr) {
		if e == nil {
			return
		}
		if e.T.narrow() {
			rep.Class("has-narrow-int")
		}
		if e.T.wasm32() {
			rep.Class("has-int-le32")
		}
		if e.T.isFloat() {
			rep.Class("has-float")
		}
		switch e.K {
		case KCast:
			rep.Class("has-cast")
		case KCall:
			rep.Class("has-call")
			if len(e.Args) < len(sc.Helpers[e.F].Params) {
				rep.Class("has-call-with-defaulted-argument")
			}
			for _, a := range e.Args {
				walkE(a)
				if a.K == KCall {
					rep.Class("has-call-as-argument")
				}
			}
		case KBin:
			switch {
			case e.Op == "^":
				rep.Class("has-pow")
			case e.Op == "/" || e.Op == "%":
				rep.Class("has-div-mod")
			case isLogic(e.Op):
				rep.Class("has-and-or")
			case isCmp(e.Op):
				rep.Class("has-comparison")
			}
		}
		walkE(e.A)
		walkE(e.B)
	}
	var walkS func(b []Stmt, depth int)
	walkS = func(b []Stmt, depth int) {
		for i := range b {
			s := &b[i]
			walkE(s.E)
			for _, a := range s.Args {
				walkE(a)
			}
			switch s.K {
			case SState:
				rep.Class("has-stateful")
			case SIf:
				rep.Class("has-if")
				if len(s.Elifs) > 0 {
					rep.Class("has-else-if")
				}
			case SForRange:
				rep.Class("has-for-range")
			case SForCond:
				rep.Class("has-for-cond")
			case SForInf:
				rep.Class("has-for-infinite")
			case SBreak, SContinue:
				rep.Class("has-break-continue")
			case SReturn:
				if depth > 0 {
					rep.Class("has-early-return")
				}
			case SAssign:
				if s.Op != "" {
					rep.Class("has-compound-assign")
				}
			}
			walkS(s.Body, depth+1)
			for j := range s.Elifs {
				walkE(s.Elifs[j].C)
				walkS(s.Elifs[j].Body, depth+1)
			}
			walkS(s.Else, depth+1)
		}
	}
	walkS(sc.Body, 0)
	for i := range sc.Helpers {
		walkS(sc.Helpers[i].Body, 0)
	}
}

func isBoundary(t Ty, bits uint64) bool {
	for _, b := range boundaryArgs(t) {
		if b == bits {
			return true
		}
	}
	return false
}

func execute(sc Script, rep *kit.Report) error {
	avoid := avoidSet()
	for k, v := range genCounters {
		rep.Add(k, int64(v))
	}
	genCounters = nil
	pr := newPrinter(avoid)
	src := pr.program(&sc)
	for tag, n := range pr.added {
		rep.Add("avoided-hazard-by-parentheses:"+tag, int64(n))
	}
	static := pr.static
	for tag := range static {
		rep.Class("static:" + tag)
	}
	classifyProgram(&sc, rep)

	res, timedOut := compileGuarded(src)
	if timedOut {
		rep.Discard("compile-timeout")
		return nil
	}
	if res.panicked != nil {
		return kit.Fail("compile-panic"+tagStr(static), "arc.CompileText panicked: %v\nsource:\n%s\n%s", res.panicked, src, trim(res.stack, 3000))
	}
	if res.err != nil && sc.Fall {
		// a path falls off the end of the function: rejection is the specified outcome
		rep.Class("fallthrough-program-rejected")
		return nil
	}
	if res.err != nil {
		// rejected by parser / analyzer / compiler with an error value: a discard
		rep.Discard("rejected")
		rep.Class("rejected:" + rejectClass(res.err.Error()))
		if os.Getenv("C19_SHOW_REJECTS") != "" {
			fmt.Printf("REJECTED: %v\n%s\n", res.err, src)
		}
		return nil
	}
	rep.Class("accepted")
	if len(res.prog.WASM) == 0 {
		return kit.Fail("wasm-missing", "accepted program produced no WASM module\nsource:\n%s", src)
	}
	ctx := context.Background()
	h, err := newHost(ctx)
	if err != nil {
		return kit.Fail("host-setup", "cannot set up wazero host modules: %v", err)
	}
	defer h.rt.Close(ctx)
	compiled, err := h.rt.CompileModule(ctx, res.prog.WASM)
	if err != nil {
		return kit.Fail("wasm-invalid"+tagStr(static), "wazero rejects the module of an accepted program: %v\nsource:\n%s", err, src)
	}
	mod, err := h.rt.InstantiateModule(ctx, compiled, wazero.NewModuleConfig().WithName(""))
	if err != nil {
		return kit.Fail("instantiate-failed"+tagStr(static), "module of an accepted program does not instantiate: %v\nsource:\n%s", err, src)
	}
	if sc.Fall {
		// accepted although a path does not return: the module validated and instantiated,
		// which is all the property asks of an accepted program; its result is unspecified
		rep.Class("fallthrough-program-accepted")
		return nil
	}
	fn := mod.ExportedFunction(funcName)
	if fn == nil {
		return kit.Fail("export-missing", "function %q is not exported\nsource:\n%s", funcName, src)
	}
	zeroExt := os.Getenv("C19_ARGS") == "zeroext" // pass narrow signed arguments as production's valueAt does
	m := newMachine(&sc)
	compared := 0
	sawBoundary := false
	for ci, args := range sc.Calls {
		exp, hz, undef := m.call(args)
		if undef != "" {
			rep.Add("avoided-region:"+undef, 1)
			rep.Class("stopped-at-avoided-region")
			break
		}
		skip := false
		tags := map[string]bool{}
		for t := range static {
			tags[t] = true
		}
		for _, t := range hz {
			tags[t] = true
			if avoid[t] {
				rep.Add("avoided-hazard:"+t, 1)
				skip = true
			}
		}
		wargs := make([]uint64, len(args))
		for i, p := range sc.Params {
			if zeroExt {
				wargs[i] = zeroExtArg(p.T, args[i])
				if p.T.narrow() && p.T.isSigned() && int64(args[i]) < 0 {
					tags["arg-zeroext"] = true
				}
			} else {
				wargs[i] = toWasm(p.T, args[i])
			}
			if isBoundary(p.T, args[i]) {
				sawBoundary = true
			}
		}
		if skip {
			rep.Class("stopped-at-avoided-hazard")
			break
		}
		cctx, cancel := context.WithTimeout(ctx, callTimeout)
		out, cerr := fn.Call(cctx, wargs...)
		expired := cctx.Err() != nil
		cancel()
		if cerr != nil {
			if expired {
				rep.Discard("call-timeout")
				fmt.Printf("C19: call did not finish within %v (inconclusive)\nsource:\n%s\nargs %s\n", callTimeout, src, fmtArgs(&sc, args))
				return nil
			}
			return kit.Fail("trap"+tagStr(tags), "call %d %s trapped: %v; M-ARC expects %s\nsource:\n%s", ci, fmtArgs(&sc, args), firstLine(cerr.Error()), exp, src)
		}
		if len(out) != 1 {
			return kit.Fail("result-arity", "call %d returned %d results\nsource:\n%s", ci, len(out), src)
		}
		got := fromWasm(sc.Ret, out[0])
		compared++
		for _, t := range hz {
			rep.Class("dyn:" + t)
		}
		if !sameValue(exp, got) {
			if m.usedFP && exp.T.isFloat() && within1ulp(exp, got) {
				rep.Add("pow-1ulp-tolerance-used", 1)
			} else {
				if m.usedFP {
					tags["float-pow"] = true
				}
				return kit.Fail("result-mismatch"+tagStr(tags), "call %d %s: compiled code returned %s (raw 0x%x), M-ARC expects %s\nsource:\n%s", ci, fmtArgs(&sc, args), got, out[0], exp, src)
			}
		}
		if sc.Ret.wasm32() && sc.Ret.narrow() && toWasm(sc.Ret, exp.U) != out[0] {
			rep.Add("result-register-not-canonical", 1)
		}
	}
	rep.Add("calls-compared", int64(compared))
	if compared > 0 {
		rep.Class("compared")
		if sawBoundary && (rep.Has("has-int-le32") || rep.Has("has-cast")) {
			rep.Nontrivial()
		}
	}
	_ = mod.Close(ctx)
	return nil
}

func firstLine(s string) string {
	if i := strings.IndexByte(s, '\n'); i >= 0 {
		return s[:i]
	}
	return s
}

func trim(s string, n int) string {
	if len(s) > n {
		return s[:n] + "\n...[truncated]"
	}
	return s
}

// rejectClass buckets rejection messages for the evidence file.
func rejectClass(msg string) string {
	msg = firstLine(msg)
	for _, k := range []string{"out of range", "type mismatch", "cannot use", "conflicts with", "must return", "not yet implemented",
		"invalid integer literal", "undefined", "requires", "cannot assign", "cannot convert", "mismatched input", "extraneous input", "no viable"} {
		if strings.Contains(msg, k) {
			return strings.ReplaceAll(k, " ", "-")
		}
	}
	return "other"
}
