package verif_c19_test

import (
	"testing"

	kit "github.com/synnaxlabs/arc/internal/verifkit"
)

func TestC19(t *testing.T) {
	r := &kit.Runner[Script]{Name: "TestC19", Exec: execute}
	r.Run(t, genScript)
}
