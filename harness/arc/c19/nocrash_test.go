// nocrash_test.go: "Source the analyzer rejects produces diagnostics, never a crash."
// arc.CompileText is run on mutated source text: token deletion / duplication / swap /
// replacement / insertion / truncation applied to (a) programs of the typed generator and
// (b) the repository's own Arc sources (client/py/examples/**/*.arc and the ```arc blocks of
// arc/docs/spec.md and the reference pages). Oracle: returns (success, diagnostics or error),
// never panics; a compile that exceeds the time bound is a discard.
package verif_c19_test

import (
	"context"
	"os"
	"path/filepath"
	"regexp"
	"sort"
	"strings"
	"sync"
	"testing"

	kit "github.com/synnaxlabs/arc/internal/verifkit"
	"pgregory.net/rapid"
)

type TextScript struct {
	Src string `json:"src"`
}

var (
	seedOnce  sync.Once
	seedTexts []string
)

var arcFence = regexp.MustCompile("(?s)```arc\\n(.*?)```")

func loadSeeds() []string {
	seedOnce.Do(func() {
		repo := os.Getenv("VERIF_REPO")
		if repo == "" {
			repo = "/repo"
		}
		var files []string
		for _, pat := range []string{
			"client/py/examples/control/*/*.arc", "client/py/examples/*/*.arc",
			"arc/docs/spec.md", "docs/site/src/pages/reference/control/arc/*.mdx",
			"docs/site/src/pages/reference/control/arc/*/*.mdx", "docs/site/src/pages/reference/control/arc/*/*/*.mdx",
		} {
			m, _ := filepath.Glob(filepath.Join(repo, pat))
			files = append(files, m...)
		}
		sort.Strings(files)
		for _, f := range files {
			b, err := os.ReadFile(f)
			if err != nil {
				continue
			}
			if strings.HasSuffix(f, ".arc") {
				seedTexts = append(seedTexts, string(b))
				continue
			}
			for _, m := range arcFence.FindAllStringSubmatch(string(b), -1) {
				if len(m[1]) > 0 && len(m[1]) < 4000 {
					seedTexts = append(seedTexts, m[1])
				}
			}
		}
		// always-available fallbacks
		seedTexts = append(seedTexts,
			"func counter() i64 {\n    count $= 0\n    count = count + 1\n    return count\n}\n",
			"func clamp(value f64, min f64 = 0.0, max f64 = 1.0) f64 {\n    if value < min {\n        return min\n    }\n    return value\n}\n",
			"func sum_all() f64 {\n    data := [1.0, 2.5]\n    sum f64 := 0.0\n    for i, x := data {\n        sum = sum + x\n    }\n    return sum + f64(len(data))\n}\n",
		)
	})
	return seedTexts
}

var tokenRe = regexp.MustCompile("\\n|//[^\\n]*|[A-Za-z_][A-Za-z0-9_]*|[0-9]+\\.[0-9]*|\\.[0-9]+|[0-9]+|\"[^\"\\n]*\"|`[^`]*`|:=|\\$=|==|!=|<=|>=|->|=>|\\+=|-=|\\*=|/=|%=|\\S")

var vocab = []string{"func", "if", "else", "return", "for", "break", "continue", "range", "and", "or", "not",
	"i8", "i16", "i32", "i64", "u8", "u16", "u32", "u64", "f32", "f64", "str", "chan", "series", "sequence", "stage", "next",
	"authority", "import", "(", ")", "{", "}", "[", "]", ",", ":", ":=", "$=", "=", "+", "-", "*", "/", "%", "^",
	"==", "!=", "<", "<=", ">", ">=", "->", "=>", "+=", "-=", "*=", "/=", "%=", ".",
	"0", "1", "255", "256", "-1", "9223372036854775808", "18446744073709551616", "1.5", ".5", "1.", "340282350000000000000000000000000000000.0",
	"\"s\"", "`m`", "f\"{x}\"", "f\"{x:d}\"", "r\"\\\"", "x", "a", "f", "len", "now", "true", "false", "min", "ms", "5s", "10hz", "_", "\n", "\n"}

func genText(t *rapid.T) TextScript {
	var base string
	seeds := loadSeeds()
	if rapid.IntRange(0, 9).Draw(t, "base-kind") < 7 {
		sc := genScriptWith(t, 6)
		genCounters = nil
		base = newPrinter(map[string]bool{}).program(&sc)
	} else {
		base = seeds[rapid.IntRange(0, len(seeds)-1).Draw(t, "seed")]
	}
	toks := tokenRe.FindAllString(base, -1)
	nm := rapid.IntRange(0, 4).Draw(t, "nmut")
	for i := 0; i < nm && len(toks) > 0; i++ {
		pos := rapid.IntRange(0, len(toks)-1).Draw(t, "pos")
		switch rapid.IntRange(0, 6).Draw(t, "mut") {
		case 0: // delete
			toks = append(toks[:pos:pos], toks[pos+1:]...)
		case 1: // duplicate
			toks = append(toks[:pos+1:pos+1], toks[pos:]...)
		case 2: // swap
			j := rapid.IntRange(0, len(toks)-1).Draw(t, "pos2")
			toks[pos], toks[j] = toks[j], toks[pos]
		case 3: // replace
			toks[pos] = vocab[rapid.IntRange(0, len(vocab)-1).Draw(t, "tok")]
		case 4: // insert
			tk := vocab[rapid.IntRange(0, len(vocab)-1).Draw(t, "tok")]
			toks = append(toks[:pos:pos], append([]string{tk}, toks[pos:]...)...)
		case 5: // truncate
			toks = toks[:pos]
		case 6: // copy a token from elsewhere
			j := rapid.IntRange(0, len(toks)-1).Draw(t, "pos2")
			toks[pos] = toks[j]
		}
	}
	var sb strings.Builder
	for i, tk := range toks {
		if i > 0 && tk != "\n" && toks[i-1] != "\n" {
			sb.WriteByte(' ')
		}
		sb.WriteString(tk)
	}
	return TextScript{Src: sb.String()}
}

func executeText(sc TextScript, rep *kit.Report) error {
	res, timedOut := compileGuarded(sc.Src)
	if timedOut {
		rep.Discard("compile-timeout")
		return nil
	}
	if res.panicked != nil {
		return kit.Fail("nocrash-panic", "arc.CompileText panicked: %v\nsource:\n%s\n%s", res.panicked, sc.Src, trim(res.stack, 3500))
	}
	if res.err != nil {
		msg := res.err.Error()
		switch {
		case strings.Contains(msg, "mismatched input") || strings.Contains(msg, "extraneous input") ||
			strings.Contains(msg, "no viable alternative") || strings.Contains(msg, "missing ") || strings.Contains(msg, "token recognition"):
			rep.Class("syntax-error")
		case strings.Contains(msg, "failed to compile"):
			rep.Class("compiler-error")
			rep.Nontrivial()
		default:
			rep.Class("analysis-error")
			rep.Nontrivial()
		}
		return nil
	}
	rep.Class("accepted")
	rep.Nontrivial()
	if os.Getenv("C19_NOCRASH_VALIDATE") != "" && len(res.prog.WASM) > 0 {
		ctx := context.Background()
		h, err := newHost(ctx)
		if err != nil {
			return kit.Fail("host-setup", "cannot set up wazero host modules: %v", err)
		}
		defer h.rt.Close(ctx)
		if _, err := h.rt.CompileModule(ctx, res.prog.WASM); err != nil {
			return kit.Fail("wasm-invalid", "wazero rejects the module of an accepted program: %v\nsource:\n%s", err, sc.Src)
		}
		rep.Class("validated")
	}
	return nil
}

func TestC19NoCrash(t *testing.T) {
	r := &kit.Runner[TextScript]{Name: "TestC19NoCrash", Exec: executeText}
	r.Run(t, genText)
}
