// runtime_test.go: TestC19Runtime — the same generated functions, but invoked the way
// production invokes them: `in_ch -> f{} -> out_ch` executed by the scheduler with a real
// stl/wasm node (wired like arc/go/runtime_test.go), samples ingested as a telem series of the
// parameter's type and results read from the node's output series. This exercises the
// argument/result marshalling of arc/go/stl/wasm/node.go (valueAt / setValueAt), which the
// direct ExportedFunction.Call path of TestC19 bypasses.
//
// Hazard tag "arg-zeroext": a negative i8/i16 sample (node.go passes series samples
// zero-extended, the compiled code expects narrow signed values sign-extended).
package verif_c19_test

import (
	"context"
	"encoding/binary"
	"fmt"
	"testing"

	"github.com/synnaxlabs/arc"
	kit "github.com/synnaxlabs/arc/internal/verifkit"
	"github.com/synnaxlabs/arc/runtime/node"
	"github.com/synnaxlabs/arc/runtime/scheduler"
	"github.com/synnaxlabs/arc/stl"
	"github.com/synnaxlabs/arc/stl/channels"
	"github.com/synnaxlabs/arc/stl/constant"
	"github.com/synnaxlabs/arc/stl/control"
	stlerrors "github.com/synnaxlabs/arc/stl/errors"
	stlmath "github.com/synnaxlabs/arc/stl/math"
	stlop "github.com/synnaxlabs/arc/stl/op"
	"github.com/synnaxlabs/arc/stl/selector"
	"github.com/synnaxlabs/arc/stl/series"
	"github.com/synnaxlabs/arc/stl/stable"
	"github.com/synnaxlabs/arc/stl/stateful"
	stlstrings "github.com/synnaxlabs/arc/stl/strings"
	stltime "github.com/synnaxlabs/arc/stl/time"
	stlwasm "github.com/synnaxlabs/arc/stl/wasm"
	"github.com/synnaxlabs/arc/symbol"
	"github.com/synnaxlabs/arc/types"
	"github.com/synnaxlabs/x/telem"
	"github.com/tetratelabs/wazero"
	"pgregory.net/rapid"
)

func arcType(t Ty) types.Type {
	switch t {
	case I8:
		return types.I8()
	case I16:
		return types.I16()
	case I32:
		return types.I32()
	case I64:
		return types.I64()
	case U8:
		return types.U8()
	case U16:
		return types.U16()
	case U32:
		return types.U32()
	case U64:
		return types.U64()
	case F32:
		return types.F32()
	}
	return types.F64()
}

func telemType(t Ty) telem.DataType {
	switch t {
	case I8:
		return telem.Int8T
	case I16:
		return telem.Int16T
	case I32:
		return telem.Int32T
	case I64:
		return telem.Int64T
	case U8:
		return telem.Uint8T
	case U16:
		return telem.Uint16T
	case U32:
		return telem.Uint32T
	case U64:
		return telem.Uint64T
	case F32:
		return telem.Float32T
	}
	return telem.Float64T
}

// sampleSeries builds a series of the parameter's data type from canonical bits.
func sampleSeries(t Ty, bits []uint64) telem.Series {
	d := int(t.bits() / 8)
	data := make([]byte, d*len(bits))
	for i, b := range bits {
		switch d {
		case 1:
			data[i] = byte(b)
		case 2:
			binary.LittleEndian.PutUint16(data[2*i:], uint16(b))
		case 4:
			binary.LittleEndian.PutUint32(data[4*i:], uint32(b))
		default:
			binary.LittleEndian.PutUint64(data[8*i:], b)
		}
	}
	return telem.Series{DataType: telemType(t), Data: data}
}

func readSample(t Ty, s telem.Series, i int) uint64 {
	d := int(t.bits() / 8)
	b := s.Data[i*d : (i+1)*d]
	switch d {
	case 1:
		return uint64(b[0])
	case 2:
		return uint64(binary.LittleEndian.Uint16(b))
	case 4:
		return uint64(binary.LittleEndian.Uint32(b))
	}
	return binary.LittleEndian.Uint64(b)
}

const (
	inKey  = 100
	outKey = 200
)

// the flow supplies exactly one input
func genRuntimeScript(t *rapid.T) Script { return genScriptN(t, 8, 1) }

func executeRuntime(sc Script, rep *kit.Report) error {
	avoid := avoidSet()
	genCounters = nil
	if len(sc.Params) != 1 {
		rep.Discard("not-one-parameter")
		return nil
	}
	if sc.Fall {
		// programs with a path that does not return are decided by TestC19 (rejected, or
		// accepted with a module that validates); they are never executed
		rep.Class("fallthrough-program-skipped")
		return nil
	}
	pr := newPrinter(avoid)
	src := pr.program(&sc) + "in_ch -> " + funcName + "{} -> out_ch\n"
	static := pr.static
	pt, rt := sc.Params[0].T, sc.Ret

	// reference results for the longest prefix of calls that stays in defined, non-avoided territory
	m := newMachine(&sc)
	var samples []uint64
	var expect []val
	tags := map[string]bool{}
	for t := range static {
		tags[t] = true
	}
	hasState := false
	for i := range sc.Body {
		if sc.Body[i].K == SState {
			hasState = true
		}
	}
	for _, args := range sc.Calls {
		exp, hz, undef := m.call(args)
		if undef != "" {
			rep.Add("avoided-region:"+undef, 1)
			if hasState {
				break // the instance's state is no longer defined
			}
			continue
		}
		stop := false
		if pt.narrow() && pt.isSigned() && int64(args[0]) < 0 {
			hz = append(hz, "arg-zeroext")
		}
		for _, h := range hz {
			if avoid[h] {
				rep.Add("avoided-hazard:"+h, 1)
				stop = true
			}
		}
		if stop {
			if hasState {
				break
			}
			continue // stateless function: samples are independent, skip this one only
		}
		for _, h := range hz {
			tags[h] = true
		}
		samples = append(samples, args[0])
		expect = append(expect, exp)
	}
	if len(samples) == 0 {
		rep.Class("nothing-to-compare")
		return nil
	}

	ctx := context.Background()
	ambient := stl.NewSymbols()
	ambient = append(ambient,
		&symbol.Symbol{Name: "in_ch", Kind: symbol.KindChannel, Type: types.Chan(arcType(pt)), ID: inKey},
		&symbol.Symbol{Name: "out_ch", Kind: symbol.KindChannel, Type: types.Chan(arcType(rt)), ID: outKey})
	root := symbol.NewRoot(nil, ambient)
	var prog arc.Program
	var cerr error
	var panicked any
	func() {
		defer func() { panicked = recover() }()
		prog, cerr = arc.CompileText(ctx, arc.Text{Raw: src}, root)
	}()
	if panicked != nil {
		return kit.Fail("compile-panic"+tagStr(static), "arc.CompileText panicked: %v\nsource:\n%s", panicked, src)
	}
	if cerr != nil {
		rep.Discard("rejected")
		rep.Class("rejected:" + rejectClass(cerr.Error()))
		return nil
	}
	rep.Class("accepted")

	nodeState := node.New(prog.IR)
	channelState := channels.NewProgramState([]channels.Digest{{Key: inKey, DataType: telemType(pt)}, {Key: outKey, DataType: telemType(rt)}})
	seriesState := series.NewProgramState()
	stringsState := stlstrings.NewProgramState()
	authorityState := &control.ProgramState{}
	wrt := wazero.NewRuntimeWithConfig(ctx, wazero.NewRuntimeConfigCompiler())
	defer wrt.Close(ctx)
	timeMod, err := stltime.NewHost(ctx, wrt)
	if err != nil {
		return kit.Fail("host-setup", "%v", err)
	}
	channelMod, err := channels.NewHost(ctx, wrt, channelState, stringsState)
	if err != nil {
		return kit.Fail("host-setup", "%v", err)
	}
	statefulMod, err := stateful.NewHost(ctx, wrt, seriesState, stringsState)
	if err != nil {
		return kit.Fail("host-setup", "%v", err)
	}
	if _, err = series.NewHost(ctx, wrt, seriesState); err != nil {
		return kit.Fail("host-setup", "%v", err)
	}
	stringsMod, err := stlstrings.NewHost(ctx, wrt, stringsState, nil)
	if err != nil {
		return kit.Fail("host-setup", "%v", err)
	}
	mathMod, err := stlmath.NewHost(ctx, wrt)
	if err != nil {
		return kit.Fail("host-setup", "%v", err)
	}
	errorsMod, err := stlerrors.NewHost(ctx, wrt, nil)
	if err != nil {
		return kit.Fail("host-setup", "%v", err)
	}
	factory := node.CompoundFactory{channelMod, statefulMod, timeMod, selector.NewHost(), constant.NewHost(),
		stlop.NewHost(), stable.NewHost(), control.NewHost(authorityState), mathMod}
	if len(prog.WASM) == 0 {
		return kit.Fail("wasm-missing", "accepted program produced no WASM module\nsource:\n%s", src)
	}
	guest, err := wrt.Instantiate(ctx, prog.WASM)
	if err != nil {
		return kit.Fail("instantiate-failed"+tagStr(static), "module of an accepted program does not instantiate: %v\nsource:\n%s", err, src)
	}
	stringsMod.SetMemory(guest.Memory())
	errorsMod.SetMemory(guest.Memory())
	factory = append(factory, &stlwasm.Module{Module: guest, Memory: guest.Memory(), Strings: stringsState, NodeKeySetter: statefulMod})
	nodes := map[string]node.Node{}
	fKey := ""
	for _, irNode := range prog.Nodes {
		n, err := factory.Create(ctx, node.Config{Node: irNode, Program: prog, State: nodeState.Node(irNode.Key)})
		if err != nil {
			return kit.Fail("node-create", "cannot create node %s (%s): %v\nsource:\n%s", irNode.Key, irNode.Type, err, src)
		}
		nodes[irNode.Key] = n
		if irNode.Type == funcName {
			fKey = irNode.Key
		}
	}
	if fKey == "" {
		return kit.Fail("node-missing", "no node of type %q in the compiled flow\nsource:\n%s", funcName, src)
	}
	sched := scheduler.New(prog.IR, nodes, stltime.CalculateTolerance(timeMod.BaseInterval))
	var nodeErrs []string
	sched.SetErrorHandler(scheduler.ErrorHandlerFunc(func(_ context.Context, key string, err error) {
		nodeErrs = append(nodeErrs, key+": "+firstLine(err.Error()))
	}))
	fr := telem.Frame[uint32]{}
	fr = fr.Append(inKey, sampleSeries(pt, samples))
	channelState.Ingest(fr)
	sched.Next(ctx, telem.Millisecond, node.ReasonTimerTick)

	out := *nodeState.Node(fKey).Output(0)
	describe := func() string {
		s := ""
		for i := range samples {
			s += fmt.Sprintf(" %s->%s", valFromBits(pt, samples[i]), expect[i])
		}
		return s
	}
	if len(nodeErrs) > 0 {
		return kit.Fail("runtime-trap"+tagStr(tags), "node execution reported %v; samples->expected:%s\nsource:\n%s", nodeErrs, describe(), src)
	}
	if int(out.Len()) != len(samples) {
		return kit.Fail("runtime-output-count"+tagStr(tags), "node %s produced %d outputs for %d samples; samples->expected:%s\nsource:\n%s", fKey, out.Len(), len(samples), describe(), src)
	}
	if out.DataType != telemType(rt) {
		return kit.Fail("runtime-output-type", "output series has data type %s, function returns %s\nsource:\n%s", out.DataType, rt, src)
	}
	for i := range samples {
		got := fromWasm(rt, readSample(rt, out, i))
		if !sameValue(expect[i], got) {
			if m.usedFP && expect[i].T.isFloat() && within1ulp(expect[i], got) {
				continue
			}
			return kit.Fail("runtime-mismatch"+tagStr(tags), "sample %d %s: node output %s, M-ARC expects %s (all samples->expected:%s)\nsource:\n%s",
				i, valFromBits(pt, samples[i]), got, expect[i], describe(), src)
		}
	}
	rep.Add("samples-compared", int64(len(samples)))
	rep.Class("compared")
	if pt.narrow() && pt.isSigned() {
		rep.Class("narrow-signed-input")
	}
	rep.Nontrivial()
	return nil
}

func TestC19Runtime(t *testing.T) {
	r := &kit.Runner[Script]{Name: "TestC19Runtime", Exec: executeRuntime}
	r.Run(t, genRuntimeScript)
}
