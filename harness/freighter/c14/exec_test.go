package verif_c14_test

import (
	"context"
	"fmt"
	"os"
	"runtime/debug"
	"strconv"
	"sync"
	"sync/atomic"
	"time"

	"github.com/synnaxlabs/freighter"
	kit "github.com/synnaxlabs/freighter/internal/verifkit"
	"github.com/synnaxlabs/x/address"
	"github.com/synnaxlabs/x/errors"
)

// ---------------------------------------------------------------- payloads

// Req and Res carry, besides the sequence number and a string payload, a map and a slice
// whose content is a function of (direction, seq): consecutive messages have different map
// keys and slice lengths, so a transport that decodes every message into one reused target
// (stale map entries, shared backing arrays) delivers a message that is not the one sent.
type Req struct {
	Seq  int            `json:"seq" msgpack:"seq"`
	Data string         `json:"data" msgpack:"data"`
	Tags map[string]int `json:"tags" msgpack:"tags"`
	Vals []int          `json:"vals" msgpack:"vals"`
}

type Res struct {
	Seq  int            `json:"seq" msgpack:"seq"`
	Data string         `json:"data" msgpack:"data"`
	Tags map[string]int `json:"tags" msgpack:"tags"`
	Vals []int          `json:"vals" msgpack:"vals"`
}

func tagsOf(dir, seq int) map[string]int {
	if seq < 0 {
		return nil
	}
	m := map[string]int{fmt.Sprintf("k%d", seq%3): seq*2 + dir}
	if seq%4 == 1 {
		m["extra"] = seq
	}
	return m
}

func valsOf(dir, seq int) []int {
	if seq < 0 {
		return nil
	}
	n := (seq*7 + dir) % 5
	out := make([]int, 0, n)
	for i := 0; i < n; i++ {
		out = append(out, seq*10+i+dir)
	}
	return out
}

func sameExtras(tags map[string]int, vals []int, dir, seq int) bool {
	wt, wv := tagsOf(dir, seq), valsOf(dir, seq)
	if len(tags) != len(wt) || len(vals) != len(wv) {
		return false
	}
	for k, v := range wt {
		if g, ok := tags[k]; !ok || g != v {
			return false
		}
	}
	for i := range wv {
		if vals[i] != wv[i] {
			return false
		}
	}
	return true
}

var payloadBase = func() string {
	const alphabet = "abcdefghijklmnopqrstuvwxyzABCDEFGHIJKLMNOPQRSTUVWXYZ0123456789-_"
	b := make([]byte, 2*maxPayload+64)
	x := uint32(2463534242)
	for i := range b {
		x ^= x << 13
		x ^= x >> 17
		x ^= x << 5
		b[i] = alphabet[x&63]
	}
	return string(b)
}()

// payload is a deterministic function of (direction, seq, size).
func payload(dir, seq, size int) string {
	off := (seq*7919 + dir*104729) % maxPayload
	return payloadBase[off : off+size]
}

// ---------------------------------------------------------------- one case

var (
	// watchdog: a case whose two sides make no progress for this long is inconclusive
	// (discard "timeout"). Measured in ticks observed by the supervising goroutine, so a
	// stalled process (SIGSTOP, starved scheduler) does not count as elapsed time.
	watchdog = envDuration("VERIF_C14_WATCHDOG", 30*time.Second)
	grace    = envDuration("VERIF_C14_GRACE", 20*time.Second)
	// repeatWatchdog: the one place where a blocked call is a violation. Once Receive has
	// returned the terminal result, the stream is over and the documentation demands that
	// further calls return "immediately"; nothing the peer or the network does can be
	// awaited any more.
	repeatWatchdog = envDuration("VERIF_C14_REPEAT_WATCHDOG", 10*time.Second)
	tickEvery      = 250 * time.Millisecond
	// wsCloseGuard: the websocket server gives the client closeReadWriteDeadline (500 ms)
	// after the handler returned before it tears the connection down. A client that took
	// longer than this guard to reach the terminal result is outside the property's
	// precondition (it is a stuck client by the server's definition) and is discarded.
	wsCloseGuard = 300 * time.Millisecond
)

// Timeouts are inconclusive, so shortening the watchdog can only turn a slow case into a
// discard, never into a violation. The first timeout of a process gets the full watchdog;
// repeated timeouts are systematic (a hang, not a hiccup), so later ones are cut short and
// after timeoutBudget of them the remaining cases of the process are discarded unrun.
var (
	timeoutsSeen  atomic.Int32
	timeoutBudget = int32(8)
)

func currentWatchdog() time.Duration {
	switch n := timeoutsSeen.Load(); {
	case n == 0:
		return watchdog
	case n == 1:
		return watchdog / 3
	case n == 2:
		return watchdog / 10
	default:
		return watchdog / 15
	}
}

func envDuration(k string, def time.Duration) time.Duration {
	if v := os.Getenv(k); v != "" {
		if ms, err := strconv.Atoi(v); err == nil {
			return time.Duration(ms) * time.Millisecond
		}
	}
	return def
}

var errAborted = errors.New("verif c14: case aborted by the harness")

type run struct {
	seenReqs []Req // requests the handler received (retained, see the "ret" op)
	sc       Script
	tp       *transport
	pl       *plan
	rep      *kit.Report
	kind     errKind
	ret      error

	done     []chan struct{}
	abortCh  chan struct{}
	cancel   context.CancelFunc
	progress atomic.Int64
	hStarted atomic.Bool
	hRetAt   atomic.Int64 // unix nanos at which the handler began returning
	cGot     atomic.Int64 // responses received by the client
	inRepeat atomic.Bool  // client is inside Receive after the terminal result was returned
	inSend   atomic.Bool  // client is inside Send
	inEOF    atomic.Bool  // handler is inside a Receive that must yield end-of-stream
	closeIdx int          // index of the client's CloseSend op (-1: none)
	cDone    chan struct{}
	hDone    chan struct{}

	mu        sync.Mutex
	violation *kit.Violation
	discard   string
	stopFlag  atomic.Bool
}

func (r *run) stopped() bool { return r.stopFlag.Load() }

func (r *run) abort() {
	r.mu.Lock()
	select {
	case <-r.abortCh:
	default:
		close(r.abortCh)
	}
	r.mu.Unlock()
	r.cancel()
}

// fail records the first verdict of the case and unwinds both sides.
func (r *run) fail(sig, format string, args ...any) {
	r.mu.Lock()
	if r.violation == nil && r.discard == "" {
		r.violation = kit.Fail(r.tp.name+"-"+sig, format, args...)
	}
	r.stopFlag.Store(true)
	r.mu.Unlock()
	r.abort()
}

func (r *run) discardCase(reason string) {
	r.mu.Lock()
	if r.violation == nil && r.discard == "" {
		r.discard = reason
	}
	r.stopFlag.Store(true)
	r.mu.Unlock()
	r.abort()
}

func (r *run) tick() { r.progress.Add(1) }

// pre performs the rendezvous and the timing variation of op i. It reports false when the
// case has been aborted.
func (r *run) pre(i int) bool {
	if a := r.pl.exp[i].after; a >= 0 {
		select {
		case <-r.done[a]:
		case <-r.abortCh:
			return false
		}
	}
	if us := r.pl.ops[i].SleepUs; us > 0 {
		tm := time.NewTimer(time.Duration(us) * time.Microsecond)
		select {
		case <-tm.C:
		case <-r.abortCh:
			tm.Stop()
			return false
		}
	}
	return !r.stopped()
}

func (r *run) finish(i int) {
	close(r.done[i])
	r.tick()
}

func shortErr(err error) string {
	if err == nil {
		return "nil"
	}
	switch {
	case errors.Is(err, freighter.EOF):
		return "EOF"
	case errors.Is(err, freighter.ErrStreamClosed):
		return "ErrStreamClosed"
	case errors.Is(err, context.Canceled):
		return "Canceled"
	}
	return "other"
}

// slowWS reports whether the websocket close deadline may have elapsed since the handler
// began returning.
func (r *run) slowWS() bool {
	if r.tp.name != "ws" {
		return false
	}
	at := r.hRetAt.Load()
	return at != 0 && time.Since(time.Unix(0, at)) > wsCloseGuard
}

// ---------------------------------------------------------------- handler side

func (r *run) handler(_ context.Context, srv freighter.ServerStream[Req, Res]) (ret error) {
	defer close(r.hDone)
	defer func() {
		if p := recover(); p != nil {
			r.fail("panic-handler", "panic on the handler side: %v\n%s", p, trim(debug.Stack()))
			ret = errAborted
		}
	}()
	r.tick()
	nSeen := 0
	for _, i := range r.pl.hOps {
		op, exp := r.pl.ops[i], r.pl.exp[i]
		if !r.pre(i) {
			return errAborted
		}
		switch op.Kind {
		case "recv":
			r.inEOF.Store(exp.kind == "eof")
			req, err := srv.Receive()
			r.inEOF.Store(false)
			r.tick()
			if r.stopped() {
				return errAborted
			}
			if exp.kind == "eof" {
				switch {
				case err == nil:
					r.fail("request-after-eof", "op %d: handler expected end-of-stream after %d requests (client called CloseSend), got request seq=%d len=%d", i, nSeen, req.Seq, len(req.Data))
				case !errors.Is(err, freighter.EOF):
					r.fail("handler-eof-wrong-error", "op %d: after CloseSend and %d requests the handler's Receive returned %q (%s) instead of EOF", i, nSeen, err, shortErr(err))
				}
			} else {
				switch {
				case err != nil && errors.Is(err, freighter.EOF):
					r.fail("eof-before-all-requests", "op %d: handler's Receive returned EOF after %d requests; request seq=%d was sent before CloseSend (or CloseSend was never called)", i, nSeen, exp.seq)
				case err != nil:
					r.rep.Class("handler-recv-error=" + shortErr(err))
					r.discardCase("handler-recv-error")
				case req.Seq < exp.seq:
					r.fail("request-duplicate-or-reordered", "op %d: handler expected request seq=%d, got seq=%d again", i, exp.seq, req.Seq)
				case req.Seq > exp.seq:
					r.fail("request-lost", "op %d: handler expected request seq=%d, got seq=%d", i, exp.seq, req.Seq)
				case req.Data != payload(0, exp.seq, exp.size):
					r.fail("request-corrupted", "op %d: request seq=%d arrived with a different payload (len %d, want %d)", i, exp.seq, len(req.Data), exp.size)
				case !sameExtras(req.Tags, req.Vals, 0, exp.seq):
					r.fail("request-corrupted", "op %d: request seq=%d arrived with tags=%v vals=%v, sent tags=%v vals=%v", i, exp.seq, req.Tags, req.Vals, tagsOf(0, exp.seq), valsOf(0, exp.seq))
				default:
					r.seenReqs = append(r.seenReqs, req)
				}
				nSeen++
			}
			if r.stopped() {
				return errAborted
			}
		case "send":
			err := srv.Send(Res{Seq: exp.seq, Data: payload(1, exp.seq, exp.size), Tags: tagsOf(1, exp.seq), Vals: valsOf(1, exp.seq)})
			r.tick()
			if r.stopped() {
				return errAborted
			}
			if err != nil {
				r.rep.Class("handler-send-error=" + shortErr(err))
				r.discardCase("handler-send-error")
				return errAborted
			}
		case "ret":
			// messages handed out earlier must not have changed when later ones arrived
			for _, q := range r.seenReqs {
				if !sameExtras(q.Tags, q.Vals, 0, q.Seq) {
					r.fail("delivered-request-changed-later", "op %d: request seq=%d, correct when it was received, now reads tags=%v vals=%v (sent tags=%v vals=%v)", i, q.Seq, q.Tags, q.Vals, tagsOf(0, q.Seq), valsOf(0, q.Seq))
					break
				}
			}
			if r.cGot.Load() < int64(r.pl.nResp) {
				r.rep.Class("rt-unread-at-return")
			}
			if r.sc.RetIdleMs > 0 {
				time.Sleep(time.Duration(r.sc.RetIdleMs) * time.Millisecond)
			}
			r.hRetAt.Store(time.Now().UnixNano())
			r.finish(i)
			return r.ret
		}
		r.finish(i)
	}
	return errAborted
}

// ---------------------------------------------------------------- client side

type clientState struct {
	got      []Res // responses received so far (retained: a later message must not alter them)
	nGot     int   // data responses received
	term     error // first terminal result
	termSeen int
}

// checkRecv applies the client-side oracle to one Receive result.
func (r *run) checkRecv(st *clientState, where string, res Res, err error) {
	k := r.pl.nResp
	switch {
	case st.term != nil:
		st.termSeen++
		switch {
		case err == nil:
			r.fail("terminal-not-stable", "%s: Receive #%d after the terminal result %q returned a message (seq=%d)", where, st.termSeen, st.term, res.Seq)
		case !r.kind.check(err):
			r.fail("terminal-not-stable", "%s: Receive #%d after the terminal result %q returned a different result %q (handler returned %s)", where, st.termSeen, st.term, err, r.kind.name)
		}
	case err == nil:
		switch {
		case st.nGot >= k:
			r.fail("response-duplicate-or-extra", "%s: client received a message (seq=%d) after all %d responses", where, res.Seq, k)
		case res.Seq < st.nGot:
			r.fail("response-duplicate-or-reordered", "%s: client expected response seq=%d, got seq=%d again", where, st.nGot, res.Seq)
		case res.Seq > st.nGot:
			r.fail("response-lost", "%s: client expected response seq=%d, got seq=%d", where, st.nGot, res.Seq)
		case res.Data != payload(1, st.nGot, r.respSize(st.nGot)):
			r.fail("response-corrupted", "%s: response seq=%d arrived with a different payload (len %d, want %d)", where, res.Seq, len(res.Data), r.respSize(st.nGot))
		case !sameExtras(res.Tags, res.Vals, 1, st.nGot):
			r.fail("response-corrupted", "%s: response seq=%d arrived with tags=%v vals=%v, sent tags=%v vals=%v", where, res.Seq, res.Tags, res.Vals, tagsOf(1, st.nGot), valsOf(1, st.nGot))
		default:
			for _, q := range st.got {
				if !sameExtras(q.Tags, q.Vals, 1, q.Seq) {
					r.fail("delivered-response-changed-later", "%s: response seq=%d, correct when it was received, reads tags=%v vals=%v after response seq=%d arrived", where, q.Seq, q.Tags, q.Vals, res.Seq)
					break
				}
			}
			st.got = append(st.got, res)
		}
		st.nGot++
		r.cGot.Store(int64(st.nGot))
	default:
		st.term = err
		hRet := r.hRetAt.Load() != 0
		switch {
		case st.nGot < k && r.slowWS(), !r.kind.check(err) && r.slowWS():
			r.rep.Class("ws-close-deadline-elapsed")
			fmt.Printf("VERIF-C14 note: discarded (client reached the terminal result %v after the handler returned, beyond the websocket close deadline guard): %s: got %d/%d responses, terminal %q, handler returned %s\n",
				time.Since(time.Unix(0, r.hRetAt.Load())).Round(time.Millisecond), where, st.nGot, k, err, r.kind.name)
			r.discardCase("ws-close-deadline")
		case !hRet:
			r.fail("spurious-terminal", "%s: client's Receive returned %q (%s) after %d of %d responses while the handler had not returned", where, err, shortErr(err), st.nGot, k)
		case st.nGot < k:
			r.fail("response-lost-before-terminal", "%s: client received the terminal result %q after only %d of the %d responses sent before the handler returned %s", where, err, st.nGot, k, r.kind.name)
		case !r.kind.check(err):
			r.fail("terminal-mismatch", "%s: handler returned %s (%v) but the client's terminal result is %q (%s)", where, r.kind.name, r.ret, err, shortErr(err))
		}
	}
}

// receive calls stream.Receive; while a call made after the terminal result is in
// flight the supervisor treats a stall as a violation rather than as inconclusive.
func (r *run) receive(st *clientState, stream freighter.ClientStream[Req, Res]) (Res, error) {
	if st.term != nil {
		r.inRepeat.Store(true)
		defer r.inRepeat.Store(false)
	}
	res, err := stream.Receive()
	r.tick()
	return res, err
}

// eofOverdue reports whether the handler sits in a Receive that must yield end-of-stream
// while the client's CloseSend has already returned.
func (r *run) eofOverdue() bool {
	if !r.inEOF.Load() || r.closeIdx < 0 {
		return false
	}
	select {
	case <-r.done[r.closeIdx]:
		return true
	default:
		return false
	}
}

func (r *run) reqsBeforeClose() int {
	n := 0
	for _, i := range r.pl.cOps[:] {
		if i >= r.closeIdx {
			break
		}
		if r.pl.ops[i].Kind == "send" {
			n++
		}
	}
	return n
}

func (r *run) respSize(seq int) int {
	for _, i := range r.pl.hOps {
		if r.pl.ops[i].Kind == "send" && r.pl.exp[i].seq == seq {
			return r.pl.exp[i].size
		}
	}
	return -1
}

func (r *run) client(stream freighter.ClientStream[Req, Res]) {
	defer close(r.cDone)
	defer func() {
		if p := recover(); p != nil {
			r.fail("panic-client", "panic on the client side: %v\n%s", p, trim(debug.Stack()))
		}
	}()
	st := &clientState{}
	for _, i := range r.pl.cOps {
		op, exp := r.pl.ops[i], r.pl.exp[i]
		if !r.pre(i) {
			break
		}
		switch op.Kind {
		case "send":
			r.inSend.Store(true)
			err := stream.Send(Req{Seq: exp.seq, Data: payload(0, max(exp.seq, 0), exp.size), Tags: tagsOf(0, exp.seq), Vals: valsOf(0, exp.seq)})
			r.inSend.Store(false)
			r.tick()
			if r.stopped() {
				break
			}
			switch {
			case exp.postCls:
				r.rep.Class("send-after-closesend=" + shortErr(err))
			case exp.kind == "data":
				if err != nil {
					// The handler consumes this request in the script, so it cannot have
					// returned; the property statement does not cover Send results.
					r.rep.Class("client-send-error=" + shortErr(err))
					r.discardCase("client-send-error")
				}
			case exp.postRet:
				r.rep.Class("send-after-return=" + shortErr(err))
			default:
				r.rep.Class("send-unconsumed=" + shortErr(err))
			}
		case "close":
			err := stream.CloseSend()
			r.tick()
			if r.stopped() {
				break
			}
			if err != nil {
				r.rep.Class("closesend-error=" + shortErr(err))
				if exp.consumed {
					r.discardCase("closesend-error")
				}
			}
		case "recv":
			res, err := r.receive(st, stream)
			if r.stopped() {
				break
			}
			r.checkRecv(st, fmt.Sprintf("op %d", i), res, err)
		}
		if r.stopped() {
			break
		}
		r.finish(i)
	}
	// Epilogue (also the unwinding path): read until the terminal result, then check that
	// it is stable, then probe Send.
	for n := 0; st.term == nil && !r.stopped(); n++ {
		res, err := r.receive(st, stream)
		if r.stopped() {
			break
		}
		r.checkRecv(st, fmt.Sprintf("drain %d", n), res, err)
	}
	for n := 0; n < 3 && !r.stopped(); n++ {
		res, err := r.receive(st, stream)
		if r.stopped() {
			break
		}
		r.checkRecv(st, "repeat", res, err)
	}
	if !r.stopped() {
		err := stream.Send(Req{Seq: -1})
		r.tick()
		r.rep.Class("send-after-terminal=" + shortErr(err))
	}
	if r.stopped() {
		r.unwind(stream)
	}
}

// unwind is the abort path: the context is already cancelled; keep receiving until the
// stream reports an error that is not the context's so that transports which hand the
// terminal message over a blocking channel (mock) can finish.
func (r *run) unwind(stream freighter.ClientStream[Req, Res]) {
	deadline := time.Now().Add(grace / 2)
	for n := 0; time.Now().Before(deadline); n++ {
		_, err := stream.Receive()
		if err != nil && !errors.Is(err, context.Canceled) {
			return
		}
		if err != nil {
			select {
			case <-r.hDone:
				if n > 2000 {
					return
				}
			default:
			}
			if !r.hStarted.Load() && n > 2000 {
				return
			}
			time.Sleep(50 * time.Microsecond)
		}
	}
}

func trim(b []byte) string {
	s := string(b)
	if len(s) > 5000 {
		s = s[:5000] + "\n...[truncated]"
	}
	return s
}

// ---------------------------------------------------------------- executor

type transport struct {
	name string
	// prepare returns the client and address to use for this script (mock: a fresh pair).
	prepare func(tp *transport, sc Script) (freighter.StreamClient[Req, Res], address.Address, error)
	current atomic.Pointer[run]
	setup   sync.Once
	init    func(tp *transport) error
	initErr error
}

// dispatch is the handler bound to the transport's server.
func (tp *transport) dispatch(ctx context.Context, srv freighter.ServerStream[Req, Res]) error {
	r := tp.current.Load()
	if r == nil || !r.hStarted.CompareAndSwap(false, true) {
		return errors.New("verif c14: handler invoked without a current case")
	}
	return r.handler(ctx, srv)
}

func (tp *transport) execute(sc Script, rep *kit.Report) error {
	pl, bad := buildPlan(sc)
	if bad != "" {
		rep.Discard("ill-formed")
		return nil
	}
	if timeoutsSeen.Load() >= timeoutBudget {
		rep.Discard("timeout-budget-exhausted")
		return nil
	}
	wd := currentWatchdog()
	tp.setup.Do(func() {
		if tp.init != nil {
			tp.initErr = tp.init(tp)
		}
	})
	if tp.initErr != nil {
		return kit.Fail("setup", "%s: %v", tp.name, tp.initErr)
	}
	kind := errKinds[pl.ret.Err]
	ctx, cancel := context.WithCancel(context.Background())
	defer cancel()
	r := &run{
		sc: sc, tp: tp, pl: pl, rep: rep, kind: kind, ret: kind.make(pl.ret.Wrap),
		done: make([]chan struct{}, len(pl.ops)), abortCh: make(chan struct{}), cancel: cancel,
		cDone: make(chan struct{}), hDone: make(chan struct{}),
	}
	r.closeIdx = -1
	for i := range r.done {
		r.done[i] = make(chan struct{})
		if pl.ops[i].Side == "c" && pl.ops[i].Kind == "close" && !pl.exp[i].postRet {
			r.closeIdx = i
		}
	}
	client, addr, err := tp.prepare(tp, sc)
	if err != nil {
		return kit.Fail("setup", "%s: %v", tp.name, err)
	}
	tp.current.Store(r)
	defer tp.current.Store(nil)

	// classification by script
	m := pl.m
	rep.Class("ret=" + kind.name)
	if m.unreadAtRet > 0 {
		rep.Class("unread-at-return")
	}
	if m.closeBeforeResp {
		rep.Class("closesend-before-response")
	}
	if m.closeConsumed {
		rep.Class("handler-sees-eof")
	}
	if m.closeOnFull {
		rep.Class("closesend-on-full-buffer")
		rep.Class(fmt.Sprintf("closesend-on-full-buffer:buf=%d", sc.Buf))
		if m.closeOnFullHeld {
			rep.Class("closesend-on-full-buffer-held")
		}
	}
	if m.recvAfterEOF {
		rep.Class("handler-recv-after-eof")
	}
	if m.blockedSends > 0 {
		rep.Class("over-budget-send")
	}
	if m.unconsumedAtRet > 0 {
		rep.Class("requests-unread-at-return")
	}
	if m.termRecvsInScript > 0 {
		rep.Class("scripted-recv-of-terminal")
	}
	if sc.Buf == 0 {
		rep.Class("unbuffered")
	}
	big := false
	for _, op := range pl.ops {
		if op.Kind == "send" && op.Size > 64<<10 {
			big = true
		}
	}
	if big {
		rep.Class("payload>64KiB")
	}

	// open the stream under the watchdog
	type opened struct {
		s   freighter.ClientStream[Req, Res]
		err error
	}
	och := make(chan opened, 1)
	go func() {
		s, err := client.Stream(ctx, addr)
		och <- opened{s, err}
	}()
	// The open is supervised in observed ticks as well (a stalled machine is not a hang).
	var stream freighter.ClientStream[Req, Res]
	otk := time.NewTicker(tickEvery)
	for waited, opened := 0, false; !opened; {
		select {
		case o := <-och:
			if o.err != nil {
				otk.Stop()
				rep.Class("open-error")
				r.discardCase("open-error")
				rep.Discard("open-error")
				r.awaitHandlerIfStarted()
				return nil
			}
			stream, opened = o.s, true
		case <-otk.C:
			if waited++; waited <= int(wd/tickEvery) {
				continue
			}
			otk.Stop()
			timeoutsSeen.Add(1)
			rep.Class("timeout")
			r.discardCase("timeout-open")
			rep.Discard("timeout-open")
			for g := 0; g < int(grace/tickEvery); g++ {
				select {
				case o := <-och:
					if o.err == nil {
						go r.unwind(o.s)
					}
					g = int(grace / tickEvery)
				case <-time.After(tickEvery):
					if g == int(grace/tickEvery)-1 {
						rep.Class("leaked-goroutine")
					}
				}
			}
			r.awaitHandlerIfStarted()
			return nil
		}
	}
	otk.Stop()

	go r.client(stream)

	// progress watchdog, counted in observed ticks
	tk := time.NewTicker(tickEvery)
	defer tk.Stop()
	last, stalled := r.progress.Load(), 0
	cDone, hDone := r.cDone, r.hDone
	for cDone != nil || hDone != nil {
		select {
		case <-cDone:
			cDone = nil
		case <-hDone:
			hDone = nil
		case <-tk.C:
			if p := r.progress.Load(); p != last {
				last, stalled = p, 0
				continue
			}
			stalled++
			switch {
			case r.stopped():
				if stalled > int(grace/tickEvery) {
					// already unwinding and still stuck
					rep.Class("leaked-goroutine")
					cDone, hDone = nil, nil
				}
			case r.inRepeat.Load():
				if stalled > int(repeatWatchdog/tickEvery) {
					r.fail("terminal-repeat-blocks", "a Receive call made after the client had already received the terminal result did not return within %v (handler returned %s)", repeatWatchdog, r.kind.name)
					stalled = 0
				}
			case r.inSend.Load() && r.hRetAt.Load() != 0 && time.Since(time.Unix(0, r.hRetAt.Load())) > repeatWatchdog:
				// The handler has returned, so the stream is over on the server side and
				// nothing the peer does can be awaited any more: a client Send that stays
				// blocked keeps the client from ever receiving the responses and the terminal
				// result the handler's return entitles it to.
				if stalled > int(repeatWatchdog/tickEvery) {
					r.fail("send-blocks-after-handler-return", "the handler returned %s more than %v ago and the client's Send is still blocked: the client can never receive the responses sent before the return and the terminal result", r.kind.name, repeatWatchdog)
					stalled = 0
				}
			case r.eofOverdue():
				// The client's CloseSend has returned and the handler has received every
				// earlier request (it is in the Receive that the model says yields EOF):
				// nothing is left to wait for but the end-of-stream marker.
				if stalled > int(repeatWatchdog/tickEvery) {
					r.fail("handler-eof-missing", "the client's CloseSend (op %d) returned and the handler received all %d earlier requests, but the handler's next Receive did not return end-of-stream within %v", r.closeIdx, r.reqsBeforeClose(), repeatWatchdog)
					stalled = 0
				}
			case stalled > int(wd/tickEvery):
				timeoutsSeen.Add(1)
				rep.Class("timeout")
				if r.hRetAt.Load() != 0 {
					rep.Class("timeout-after-handler-return")
				}
				r.discardCase("timeout")
				stalled = 0
			}
		}
	}
	cancel()
	r.mu.Lock()
	v, d := r.violation, r.discard
	r.mu.Unlock()
	if v != nil {
		return v
	}
	if d != "" {
		rep.Discard(d)
		return nil
	}
	if m.unreadAtRet > 0 || m.closeBeforeResp {
		rep.Nontrivial()
	}
	return nil
}

func (r *run) awaitHandlerIfStarted() {
	deadline := time.After(grace)
	for {
		select {
		case <-r.hDone:
			return
		case <-deadline:
			if r.hStarted.Load() {
				r.rep.Class("leaked-goroutine")
			}
			return
		case <-time.After(20 * time.Millisecond):
			if !r.hStarted.Load() {
				// give a late handler invocation a moment, then stop waiting
				select {
				case <-r.hDone:
				case <-time.After(200 * time.Millisecond):
				}
				if !r.hStarted.Load() {
					return
				}
			}
		}
	}
}
