package verif_c14_test

import (
	"context"
	stderrors "errors"
	"fmt"
	"net"
	"os"
	"runtime"
	"sort"
	"strings"
	"testing"
	"time"

	"github.com/gofiber/fiber/v3"
	"github.com/synnaxlabs/freighter"
	fgrpc "github.com/synnaxlabs/freighter/grpc"
	v1 "github.com/synnaxlabs/freighter/grpc/v1"
	fhttp "github.com/synnaxlabs/freighter/http"
	kit "github.com/synnaxlabs/freighter/internal/verifkit"
	"github.com/synnaxlabs/freighter/mock"
	"github.com/synnaxlabs/x/address"
	"github.com/synnaxlabs/x/control"
	"github.com/synnaxlabs/x/encoding/json"
	"github.com/synnaxlabs/x/encoding/msgpack"
	"github.com/synnaxlabs/x/errors"
	"github.com/synnaxlabs/x/query"
	"github.com/synnaxlabs/x/validate"
	"google.golang.org/grpc"
	"google.golang.org/grpc/credentials/insecure"
)

// ---------------------------------------------------------------- error kinds

// errKind is one value the handler may return, with the predicate the client's terminal
// result must satisfy.
type errKind struct {
	name  string
	make  func(wrap bool) error
	check func(got error) bool
}

const detail = "c14 detail 7f3a"
const plainMsg = "c14 plain failure 91c2"

// errC14 is a kind registered by the harness itself, the way applications do.
var errC14 = errors.New("c14 custom kind")

func init() {
	errors.Register(
		func(_ context.Context, err error) (errors.Payload, bool) {
			if errors.CheapIs(err, errC14) {
				return errors.Payload{Type: "verif.c14", Data: err.Error()}, true
			}
			return errors.Payload{}, false
		},
		func(_ context.Context, p errors.Payload) (error, bool) {
			if p.Type != "verif.c14" {
				return nil, false
			}
			return errors.Wrap(errC14, p.Data), true
		},
	)
}

func sentinelKind(name string, sentinel error) errKind {
	return errKind{
		name: name,
		make: func(wrap bool) error {
			if wrap {
				return errors.Wrap(sentinel, detail)
			}
			return sentinel
		},
		check: func(got error) bool { return got != nil && errors.Is(got, sentinel) },
	}
}

func isEOF(got error) bool { return got != nil && errors.Is(got, freighter.EOF) }

func carriesPlain(got error) bool {
	return got != nil && !errors.Is(got, freighter.EOF) && strings.Contains(got.Error(), plainMsg)
}

var pathSegments = []string{"channel", "data_type"}

var errKinds = func() map[string]errKind {
	ks := []errKind{
		{name: "nil", make: func(bool) error { return nil }, check: isEOF},
		{name: "eof", make: func(bool) error { return freighter.EOF }, check: isEOF},
		sentinelKind("freighter.stream_closed", freighter.ErrStreamClosed),
		sentinelKind("query", query.ErrQuery),
		sentinelKind("query.not_found", query.ErrNotFound),
		sentinelKind("query.unique_violation", query.ErrUniqueViolation),
		sentinelKind("query.invalid_parameters", query.ErrInvalidParameters),
		sentinelKind("control.unauthorized", control.ErrUnauthorized),
		sentinelKind("validation", validate.ErrValidation),
		sentinelKind("custom", errC14),
		{
			name: "validation.path",
			make: func(wrap bool) error {
				inner := validate.ErrValidation
				if wrap {
					inner = errors.Wrap(validate.ErrValidation, detail)
				}
				return validate.PathedError(inner, "channel.data_type")
			},
			check: func(got error) bool {
				var pe validate.PathError
				if got == nil || !errors.As(got, &pe) {
					return false
				}
				return fmt.Sprint(pe.Path) == fmt.Sprint(pathSegments) && pe.Err != nil && errors.Is(pe.Err, validate.ErrValidation)
			},
		},
		{name: "plain", make: func(bool) error { return errors.New(plainMsg) }, check: carriesPlain},
		{name: "plain.std", make: func(wrap bool) error {
			if wrap {
				return fmt.Errorf("outer: %w", stderrors.New(plainMsg))
			}
			return stderrors.New(plainMsg)
		}, check: carriesPlain},
	}
	m := map[string]errKind{}
	for _, k := range ks {
		m[k.name] = k
	}
	return m
}()

var errKindNames = func() []string {
	var ns []string
	for n := range errKinds {
		ns = append(ns, n)
	}
	sort.Strings(ns)
	return ns
}()

// ---------------------------------------------------------------- mock

func newMockTransport() *transport {
	return &transport{
		name: "mock",
		prepare: func(tp *transport, sc Script) (freighter.StreamClient[Req, Res], address.Address, error) {
			server, client := mock.NewStreamPair[Req, Res](sc.Buf, sc.Buf)
			server.BindHandler(tp.dispatch)
			return client, "localhost:0", nil
		},
	}
}

// ---------------------------------------------------------------- websocket

func newWSTransport() *transport { return newWSTransportWith(0) }

// newWSTransportWith: writeDeadline > 0 configures the router's per-write deadline.
func newWSTransportWith(writeDeadline time.Duration) *transport {
	var (
		addr    address.Address
		clients = map[string]freighter.StreamClient[Req, Res]{}
	)
	return &transport{
		name: "ws",
		init: func(tp *transport) error {
			ln, err := net.Listen("tcp", "127.0.0.1:0")
			if err != nil {
				return err
			}
			addr = address.Address(ln.Addr().String() + "/c14")
			app := fiber.New(fiber.Config{})
			router, err := fhttp.NewRouter(fhttp.RouterConfig{StreamWriteDeadline: writeDeadline})
			if err != nil {
				return err
			}
			server := fhttp.NewStreamServer[Req, Res](router, "/c14")
			server.BindHandler(tp.dispatch)
			router.BindTo(app)
			go func() { _ = app.Listener(ln, fiber.ListenConfig{DisableStartupMessage: true}) }()
			for name, codec := range map[string]fhttp.StreamClientConfig{
				"json":    {Codec: json.Codec},
				"msgpack": {Codec: msgpack.Codec},
			} {
				c, err := fhttp.NewStreamClient[Req, Res](codec)
				if err != nil {
					return err
				}
				clients[name] = c
			}
			// wait until the listener accepts
			deadline := time.Now().Add(10 * time.Second)
			for {
				c, err := net.DialTimeout("tcp", ln.Addr().String(), time.Second)
				if err == nil {
					_ = c.Close()
					return nil
				}
				if time.Now().After(deadline) {
					return err
				}
				time.Sleep(5 * time.Millisecond)
			}
		},
		prepare: func(tp *transport, sc Script) (freighter.StreamClient[Req, Res], address.Address, error) {
			c, ok := clients[sc.Codec]
			if !ok {
				c = clients["json"]
			}
			return c, addr, nil
		},
	}
}

// ---------------------------------------------------------------- gRPC

type reqTranslator struct{}

func (reqTranslator) Forward(_ context.Context, r Req) (*v1.Request, error) {
	return &v1.Request{Id: int32(r.Seq), Message: r.Data}, nil
}

func (reqTranslator) Backward(_ context.Context, r *v1.Request) (Req, error) {
	return Req{Seq: int(r.Id), Data: r.Message, Tags: tagsOf(0, int(r.Id)), Vals: valsOf(0, int(r.Id))}, nil // the test proto has no such fields
}

type resTranslator struct{}

func (resTranslator) Forward(_ context.Context, r Res) (*v1.Response, error) {
	return &v1.Response{Id: int32(r.Seq), Message: r.Data}, nil
}

func (resTranslator) Backward(_ context.Context, r *v1.Response) (Res, error) {
	return Res{Seq: int(r.Id), Data: r.Message, Tags: tagsOf(1, int(r.Id)), Vals: valsOf(1, int(r.Id))}, nil // the test proto has no such fields
}

type grpcStreamServer struct {
	fgrpc.StreamServerCore[Req, *v1.Request, Res, *v1.Response]
}

func (s *grpcStreamServer) Exec(stream v1.TestStreamService_ExecServer) error {
	return s.Handler(stream.Context(), stream)
}

func newGRPCTransport() *transport {
	var (
		addr   address.Address
		srv    *grpcStreamServer
		client freighter.StreamClient[Req, Res]
	)
	return &transport{
		name: "grpc",
		init: func(tp *transport) error {
			ln, err := net.Listen("tcp", "127.0.0.1:0")
			if err != nil {
				return err
			}
			addr = address.Address(ln.Addr().String())
			gs := grpc.NewServer()
			srv = &grpcStreamServer{StreamServerCore: fgrpc.StreamServerCore[Req, *v1.Request, Res, *v1.Response]{
				RequestTranslator:  reqTranslator{},
				ResponseTranslator: resTranslator{},
				ServiceDesc:        &v1.TestStreamService_ServiceDesc,
				Internal:           true,
			}}
			v1.RegisterTestStreamServiceServer(gs, srv)
			srv.BindHandler(tp.dispatch)
			pool := fgrpc.NewPool("", grpc.WithTransportCredentials(insecure.NewCredentials()))
			client = &fgrpc.StreamClient[Req, *v1.Request, Res, *v1.Response]{
				RequestTranslator:  reqTranslator{},
				ResponseTranslator: resTranslator{},
				Pool:               pool,
				ServiceDesc:        &v1.TestStreamService_ServiceDesc,
				ClientFunc: func(ctx context.Context, conn grpc.ClientConnInterface) (fgrpc.GRPCClientStream[*v1.Request, *v1.Response], error) {
					return v1.NewTestStreamServiceClient(conn).Exec(ctx)
				},
			}
			go func() { _ = gs.Serve(ln) }()
			return nil
		},
		prepare: func(tp *transport, sc Script) (freighter.StreamClient[Req, Res], address.Address, error) {
			// Cases run one at a time and the previous handler has returned, so flipping the
			// configuration field between streams is not concurrent with its use.
			srv.Internal = sc.Internal
			return client, addr, nil
		},
	}
}

// ---------------------------------------------------------------- tests

func runTransport(t *testing.T, name string, tp *transport) {
	r := &kit.Runner[Script]{Name: name, Exec: tp.execute}
	r.Run(t, genScript)
	time.Sleep(50 * time.Millisecond)
	fmt.Printf("VERIF-C14 note: %d goroutines alive at the end of %s\n", runtime.NumGoroutine(), name)
	if n := timeoutsSeen.Load(); n >= timeoutBudget && !t.Failed() && os.Getenv("VERIF_REPLAY") == "" {
		// The statistics have been written by Run. A process in which case after case hangs
		// has decided nothing: leave with a status the driver reports as INCONCLUSIVE
		// (non-zero exit without a recorded violation) instead of "passed N tests".
		fmt.Printf("VERIF-C14 inconclusive: %d cases made no progress within the watchdog; the remaining cases were not run\n", n)
		os.Exit(4)
	}
}

func TestC14Mock(t *testing.T) { runTransport(t, "TestC14Mock", newMockTransport()) }
func TestC14WS(t *testing.T)   { runTransport(t, "TestC14WS", newWSTransport()) }
func TestC14GRPC(t *testing.T) { runTransport(t, "TestC14GRPC", newGRPCTransport()) }

// TestC14WSDeadline: a WebSocket server with a per-write deadline (wsWriteDeadline) whose handler
// stays idle for longer than that right before it returns. The deadline bounds single writes; it
// must not turn the handler's result into something else: the client still gets every response
// and then the handler's terminal result. The scripts are the ordinary ones with the idle time
// added. A mismatch is only reported when an immediate second run of the same script shows it
// again (on a starved machine a goroutine can sit between arming a deadline and the write for
// longer than the deadline).
const (
	wsWriteDeadline = 120 * time.Millisecond
	wsRetIdle       = 300
)

func TestC14WSDeadline(t *testing.T) {
	tp := newWSTransportWith(wsWriteDeadline)
	r := &kit.Runner[Script]{Name: "TestC14WSDeadline", Exec: func(sc Script, rep *kit.Report) error {
		sc.RetIdleMs = wsRetIdle
		first := tp.execute(sc, rep)
		if first == nil {
			return nil
		}
		if _, isViolation := first.(*kit.Violation); !isViolation {
			return first
		}
		if second := tp.execute(sc, &kit.Report{}); second == nil {
			rep.Class("deadline-mismatch-not-reproduced")
			return nil
		}
		return first
	}}
	r.Run(t, genScript)
}
