// C14 — Freighter streams deliver in order, once, with a definite end, on all transports.
//
// This file holds the script, the reference model (which also decides which scripts are
// free of deadlock under conservative buffer assumptions) and the generator. The executor
// is in exec_test.go, the transport wiring (mock / websocket / gRPC) in transports_test.go.
package verif_c14_test

import (
	"fmt"
	"os"
	"strconv"

	"pgregory.net/rapid"
)

// ---------------------------------------------------------------- script

// Op is one operation of the client program or of the handler program. The list order of
// Script.Ops is one legal sequential execution (every Receive finds its message or the
// terminal marker already produced); the two programs are the per-side subsequences and
// run concurrently. Wait adds a rendezvous: the op starts only after the other side's
// closest preceding op (list order) has completed.
type Op struct {
	Side    string `json:"side"`               // "c" client | "h" handler
	Kind    string `json:"kind"`               // send | recv | close (client) | ret (handler)
	Size    int    `json:"size,omitempty"`     // send: payload size in bytes
	Wait    bool   `json:"wait,omitempty"`     // rendezvous with the other side's preceding op
	SleepUs int    `json:"sleep_us,omitempty"` // timing variation only, never a correctness signal
	Err     string `json:"err,omitempty"`      // ret: error kind ("nil", "plain", "query.not_found", ...)
	Wrap    bool   `json:"wrap,omitempty"`     // ret: wrap the sentinel with a detail message
}

type Script struct {
	Buf      int    `json:"buf"`      // mock channel buffer; also the model's in-flight message budget
	Codec    string `json:"codec"`    // websocket only: json | msgpack
	Internal bool   `json:"internal"` // gRPC only: StreamServerCore.Internal
	Ops      []Op   `json:"ops"`
	// RetIdleMs (TestC14WSDeadline only): the handler stays idle this long right before it
	// returns - longer than the server's per-write deadline, which must not matter for the
	// terminal result the client gets.
	RetIdleMs int `json:"ret_idle_ms,omitempty"`
}

// maxSleepUs bounds generated and replayed sleeps; VERIF_C14_MAXSLEEP_US raises it for
// directed experiments through --replay.
var maxSleepUs = func() int {
	if v, err := strconv.Atoi(os.Getenv("VERIF_C14_MAXSLEEP_US")); err == nil && v > 0 {
		return v
	}
	return 5000
}()

var allowCloseOnFull = os.Getenv("VERIF_C14_ALLOW_CLOSE_ON_FULL") == "1"

const (
	// byteBudget is the number of payload bytes per direction that the model assumes every
	// transport can hold in flight without the receiver reading (loopback TCP socket
	// buffers and the 64 KiB gRPC stream window are both larger).
	byteBudget = 16 << 10
	maxPayload = 256 << 10
)

// ---------------------------------------------------------------- model

type item struct {
	eof  bool
	seq  int
	size int
	op   int // index of the producing op
}

// expect is what the model says an op must observe.
type expect struct {
	// "data": recv of message seq/size, or a send whose message is consumed by the peer;
	// "eof": handler recv yields end-of-stream; "term": client recv yields the terminal
	// result; "free": outcome not determined by the property (send racing with / after the
	// handler's return, send after CloseSend, close whose marker is never consumed).
	kind     string
	seq      int
	size     int
	after    int  // rendezvous: index of the op that must have completed first (-1: none)
	consumed bool // send/close: the peer consumes this message in the script
	postRet  bool // client op placed after the handler's return in list order
	postCls  bool // client send after CloseSend
}

type model struct {
	buf          int
	reqQ, respQ  []item
	cBlocked     int // index of the client op that blocks until its message is consumed (-1: none)
	hBlocked     int
	cBlockedCls  bool
	cClosed      bool
	hReturned    bool
	hSawEOF      bool
	nReq, nResp  int
	lastC, lastH int
	prevC, prevH int // the op before lastC / lastH (completed even while lastC / lastH blocks)
	postRetSends int
	// facts for classification
	unreadAtRet       int
	closeBeforeResp   bool
	blockedSends      int
	recvAfterEOF      bool
	unconsumedAtRet   int
	closeConsumed     bool
	termRecvsInScript int
	closeOnFull       bool // CloseSend issued while the request buffer was full (handler still to Receive)
	closeOnFullIdx    int
	closeOnFullHeld   bool // ... and the handler's draining Receive is held back by a rendezvous on the op before CloseSend
}

func newModel(buf int) *model {
	return &model{buf: buf, cBlocked: -1, hBlocked: -1, lastC: -1, lastH: -1, prevC: -1, prevH: -1, closeOnFullIdx: -1}
}

func (m *model) clone() *model {
	c := *m
	c.reqQ = append([]item(nil), m.reqQ...)
	c.respQ = append([]item(nil), m.respQ...)
	return &c
}

func qBytes(q []item) int {
	n := 0
	for _, it := range q {
		n += it.size
	}
	return n
}

// step applies op (index idx in list order). ok=false means the script is ill-formed at
// this point (the op could not run in this order, or the script could deadlock under the
// conservative buffer model). consumed reports the op index whose message this op
// consumed (-1: none).
func (m *model) step(idx int, op Op) (e expect, consumed int, ok bool) {
	e.after, consumed = -1, -1
	switch op.Side {
	case "c":
		if m.cBlocked >= 0 {
			return e, -1, false
		}
		if op.Wait {
			// While the other side's latest op is blocked (in the model) the rendezvous is
			// with the op before it, which has completed: waiting for the blocked op itself
			// could deadlock.
			e.after = m.lastH
			if m.hBlocked >= 0 {
				e.after = m.prevH
			}
		}
		e.postRet = m.hReturned
		switch op.Kind {
		case "send":
			if op.Size < 0 || op.Size > maxPayload {
				return e, -1, false
			}
			e.kind, e.seq, e.size = "free", m.nReq, op.Size
			switch {
			case m.cClosed:
				e.postCls = true
				e.seq = -1
			case m.hReturned:
				m.nReq++
				m.postRetSends++
			default:
				it := item{seq: m.nReq, size: op.Size, op: idx}
				m.nReq++
				within := len(m.reqQ) < m.buf && qBytes(m.reqQ)+op.Size <= byteBudget
				m.reqQ = append(m.reqQ, it)
				if !within {
					if m.hBlocked >= 0 {
						return e, -1, false // both sides blocked in Send: possible deadlock
					}
					m.cBlocked = idx
					m.blockedSends++
				}
			}
		case "close":
			if m.cClosed {
				return e, -1, false
			}
			e.kind = "free"
			within := len(m.reqQ)+m.postRetSends < m.buf
			if m.hReturned {
				if !within && !allowCloseOnFull {
					// mock.ClientStream.CloseSend pushes its EOF marker with an unconditional
					// channel send: with a full request buffer and a handler that has returned
					// it never comes back. Excluded from generation (it could only ever time
					// out); VERIF_C14_ALLOW_CLOSE_ON_FULL=1 admits it for directed replays.
					return e, -1, false
				}
				m.cClosed = true
				break
			}
			m.cClosed = true
			m.reqQ = append(m.reqQ, item{eof: true, op: idx})
			if !within {
				if m.hBlocked >= 0 {
					return e, -1, false
				}
				m.cBlocked, m.cBlockedCls = idx, true
				// In the mock, CloseSend hands its EOF marker over the request channel and so
				// blocks until the handler has drained one request (unbuffered: until the
				// handler is in Receive). The model keeps the client blocked until the marker
				// itself is consumed, which is the conservative reading.
				m.closeOnFull, m.closeOnFullIdx = true, idx
			}
		case "recv":
			switch {
			case len(m.respQ) > 0:
				it := m.respQ[0]
				m.respQ = m.respQ[1:]
				e.kind, e.seq, e.size = "data", it.seq, it.size
				consumed = it.op
				if m.hBlocked == it.op {
					m.hBlocked = -1
				}
			case m.hReturned:
				e.kind = "term"
				m.termRecvsInScript++
			default:
				return e, -1, false
			}
		default:
			return e, -1, false
		}
		m.prevC, m.lastC = m.lastC, idx
	case "h":
		if m.hBlocked >= 0 || m.hReturned {
			return e, -1, false
		}
		if op.Wait {
			e.after = m.lastC
			if m.cBlocked >= 0 {
				e.after = m.prevC
				if m.cBlockedCls && m.cBlocked == m.closeOnFullIdx && op.Kind == "recv" && len(m.reqQ) == m.buf+1 {
					m.closeOnFullHeld = true
				}
			}
		}
		switch op.Kind {
		case "send":
			if op.Size < 0 || op.Size > maxPayload {
				return e, -1, false
			}
			e.kind, e.seq, e.size = "data", m.nResp, op.Size
			it := item{seq: m.nResp, size: op.Size, op: idx}
			m.nResp++
			if m.cClosed {
				m.closeBeforeResp = true
			}
			within := len(m.respQ) < m.buf && qBytes(m.respQ)+op.Size <= byteBudget
			m.respQ = append(m.respQ, it)
			if !within {
				if m.cBlocked >= 0 {
					return e, -1, false
				}
				m.hBlocked = idx
				m.blockedSends++
			}
		case "recv":
			switch {
			case m.hSawEOF:
				e.kind = "eof"
				m.recvAfterEOF = true
			case len(m.reqQ) > 0:
				it := m.reqQ[0]
				m.reqQ = m.reqQ[1:]
				consumed = it.op
				if m.cBlocked == it.op {
					m.cBlocked, m.cBlockedCls = -1, false
				}
				if it.eof {
					e.kind = "eof"
					m.hSawEOF = true
					m.closeConsumed = true
				} else {
					e.kind, e.seq, e.size = "data", it.seq, it.size
				}
			default:
				return e, -1, false
			}
		case "ret":
			if _, known := errKinds[op.Err]; !known {
				return e, -1, false
			}
			if m.cBlocked >= 0 && m.cBlockedCls {
				return e, -1, false // a blocked CloseSend is only released by consumption
			}
			m.cBlocked = -1 // a blocked client Send is released by the server closing
			m.hReturned = true
			m.unreadAtRet = len(m.respQ)
			m.unconsumedAtRet = len(m.reqQ)
			e.kind = "free"
		default:
			return e, -1, false
		}
		m.prevH, m.lastH = m.lastH, idx
	default:
		return e, -1, false
	}
	return e, consumed, true
}

// plan is a validated script together with the model's expectations.
type plan struct {
	ops        []Op
	exp        []expect
	cOps, hOps []int
	nResp      int // responses the handler sends before returning
	retIdx     int
	ret        Op
	m          *model
}

// buildPlan validates the script against the model. A non-empty reason means ill-formed.
func buildPlan(sc Script) (*plan, string) {
	if sc.Buf < 0 || sc.Buf > 64 {
		return nil, "buf"
	}
	if len(sc.Ops) > 64 {
		return nil, "too-long"
	}
	p := &plan{ops: append([]Op(nil), sc.Ops...), retIdx: -1}
	hasRet := false
	for _, op := range p.ops {
		if op.Side == "h" && op.Kind == "ret" {
			hasRet = true
		}
	}
	if !hasRet {
		p.ops = append(p.ops, Op{Side: "h", Kind: "ret", Err: "nil"})
	}
	m := newModel(sc.Buf)
	p.exp = make([]expect, len(p.ops))
	for i, op := range p.ops {
		if op.SleepUs < 0 || op.SleepUs > maxSleepUs {
			return nil, "sleep"
		}
		e, consumed, ok := m.step(i, op)
		if !ok {
			return nil, fmt.Sprintf("op%d-%s-%s", i, op.Side, op.Kind)
		}
		p.exp[i] = e
		if consumed >= 0 {
			p.exp[consumed].consumed = true
			if p.ops[consumed].Kind == "send" && p.ops[consumed].Side == "c" {
				p.exp[consumed].kind = "data"
			}
		}
		if op.Side == "c" {
			p.cOps = append(p.cOps, i)
		} else {
			p.hOps = append(p.hOps, i)
			if op.Kind == "ret" {
				p.retIdx, p.ret = i, op
			}
		}
	}
	if m.cBlocked >= 0 {
		return nil, "client-blocked-at-end"
	}
	// A handler still blocked in Send at the end would be released by the client's final
	// drain, but then it could not have reached its return: the model rejects ops of a
	// blocked side, so hBlocked is impossible here once a ret exists.
	p.nResp = m.nResp
	p.m = m
	return p, ""
}

// ---------------------------------------------------------------- generator

var sizeGen = rapid.Custom(func(t *rapid.T) int {
	switch c := rapid.IntRange(0, 99).Draw(t, "sizeclass"); {
	case c < 55:
		return rapid.IntRange(0, 64).Draw(t, "size")
	case c < 80:
		return rapid.IntRange(65, 4096).Draw(t, "size")
	case c < 92:
		return rapid.IntRange(4097, 32<<10).Draw(t, "size")
	default:
		return rapid.IntRange(32<<10+1, maxPayload).Draw(t, "size")
	}
})

func genRet(t *rapid.T) Op {
	return Op{Side: "h", Kind: "ret", Err: rapid.SampledFrom(errKindNames).Draw(t, "err"), Wrap: rapid.Bool().Draw(t, "wrap")}
}

func genTiming(t *rapid.T, op *Op) {
	op.Wait = rapid.IntRange(0, 2).Draw(t, "wait") == 0
	if rapid.IntRange(0, 7).Draw(t, "sleepy") == 0 {
		op.SleepUs = rapid.IntRange(20, 1500).Draw(t, "sleep_us")
	}
}

// genCloseOnFull produces the shape "CloseSend while the request buffer is exactly full and
// the handler is still going to Receive": top the buffer up with small requests, call
// CloseSend, and (usually) hold the handler's first draining Receive back with a rendezvous
// on the last Send (plus a short sleep) so that the buffer really is full when CloseSend runs.
func genCloseOnFull(t *rapid.T, m *model, add func(Op) bool) {
	for guard := 0; len(m.reqQ) < m.buf && m.cBlocked < 0 && guard < 16; guard++ {
		sz := rapid.IntRange(0, 48).Draw(t, "burst_size")
		if qBytes(m.reqQ)+sz > byteBudget {
			return
		}
		op := Op{Side: "c", Kind: "send", Size: sz}
		if guard == 0 {
			genTiming(t, &op)
		}
		if !add(op) {
			return
		}
	}
	if m.cBlocked >= 0 || len(m.reqQ) != m.buf {
		return
	}
	cl := Op{Side: "c", Kind: "close"}
	if rapid.IntRange(0, 3).Draw(t, "close_sleep") == 0 {
		cl.SleepUs = rapid.IntRange(20, 300).Draw(t, "sleep_us")
	}
	if !add(cl) {
		return
	}
	if rapid.IntRange(0, 3).Draw(t, "hold") > 0 {
		rc := Op{Side: "h", Kind: "recv", Wait: true}
		if rapid.IntRange(0, 2).Draw(t, "hold_sleep") > 0 {
			rc.SleepUs = rapid.IntRange(100, 1200).Draw(t, "sleep_us")
		}
		add(rc)
	}
}

func genScript(t *rapid.T) Script {
	sc := Script{
		Buf:      rapid.SampledFrom([]int{0, 1, 3, 10, 10, 10}).Draw(t, "buf"),
		Codec:    rapid.SampledFrom([]string{"json", "msgpack"}).Draw(t, "codec"),
		Internal: rapid.Bool().Draw(t, "internal"),
	}
	m := newModel(sc.Buf)
	add := func(op Op) bool {
		c := m.clone()
		if _, _, ok := c.step(len(sc.Ops), op); !ok {
			if !op.Wait {
				return false
			}
			op.Wait = false
			c = m.clone()
			if _, _, ok := c.step(len(sc.Ops), op); !ok {
				return false
			}
		}
		*m = *c
		sc.Ops = append(sc.Ops, op)
		return true
	}
	n := rapid.IntRange(1, 14).Draw(t, "nops")
	for i := 0; i < n; i++ {
		var side string
		switch {
		case m.hReturned, m.hBlocked >= 0:
			side = "c"
		case m.cBlocked >= 0:
			side = "h"
		default:
			side = rapid.SampledFrom([]string{"c", "h"}).Draw(t, "side")
		}
		op := Op{Side: side}
		if side == "c" {
			switch k := rapid.IntRange(0, 9).Draw(t, "ckind"); {
			case k < 4:
				op.Kind = "send"
			case k < 8:
				op.Kind = "recv"
			default:
				op.Kind = "close"
			}
			if m.hBlocked >= 0 && rapid.IntRange(0, 3).Draw(t, "release") > 0 {
				op.Kind = "recv"
			}
			if op.Kind == "send" && m.cClosed && rapid.IntRange(0, 4).Draw(t, "postclose") > 0 {
				op.Kind = "recv"
			}
		} else {
			switch k := rapid.IntRange(0, 9).Draw(t, "hkind"); {
			case k < 4:
				op.Kind = "send"
			case k < 8:
				op.Kind = "recv"
			default:
				op = genRet(t)
			}
			if m.cBlocked >= 0 && rapid.IntRange(0, 3).Draw(t, "release") > 0 {
				op = Op{Side: "h", Kind: "recv"}
			}
		}
		if op.Kind == "send" {
			op.Size = sizeGen.Draw(t, "payload")
		}
		if op.Side == "c" && op.Kind == "close" && !m.cClosed && !m.hReturned && m.hBlocked < 0 && m.cBlocked < 0 &&
			rapid.IntRange(0, 2).Draw(t, "closeOnFull") > 0 {
			genCloseOnFull(t, m, add)
			continue
		}
		genTiming(t, &op)
		add(op)
	}
	// Finalise: release whatever is blocked, make the handler return, then let the client
	// act a little after the return.
	for guard := 0; m.cBlocked >= 0 && m.cBlockedCls && guard < 64; guard++ {
		if !add(Op{Side: "h", Kind: "recv"}) {
			break
		}
	}
	for guard := 0; m.hBlocked >= 0 && guard < 64; guard++ {
		if !add(Op{Side: "c", Kind: "recv"}) {
			break
		}
	}
	if !m.hReturned {
		op := genRet(t)
		genTiming(t, &op)
		add(op)
		extra := rapid.IntRange(0, 3).Draw(t, "extra")
		for i := 0; i < extra; i++ {
			op := Op{Side: "c", Kind: rapid.SampledFrom([]string{"send", "recv", "recv", "close"}).Draw(t, "xkind")}
			if op.Kind == "send" {
				op.Size = sizeGen.Draw(t, "payload")
			}
			genTiming(t, &op)
			add(op)
		}
	}
	return sc
}
